#!/bin/sh
# Offline setup: nothing to download.  Warm the Go build cache for the drivers and
# make sure the tools the checks need are present.
set -e
cd "$(dirname "$0")"
command -v java >/dev/null || { echo "java missing"; exit 1; }
test -f /opt/veriftools/tla/tla2tools.jar || { echo "tla2tools.jar missing"; exit 1; }
command -v go >/dev/null || { echo "go missing"; exit 1; }
command -v rsync >/dev/null || { echo "rsync missing"; exit 1; }
chmod +x check tools/*.py 2>/dev/null || true
mkdir -p evidence replays
python3 tools/warm.py || true
echo "setup ok"
