// ringdrv drives the real motion.FrameLoop through its exported API and logs
// the answer of every query after every operation.
package main

import (
	"fmt"
	"os"
	"reflect"
	"strings"
	"sync/atomic"

	"github.com/TheCacophonyProject/thermal-recorder/motion"
	"github.com/TheCacophonyProject/thermal-recorder/zzverif/vh"
)

type Script struct {
	Cap int      `json:"cap"`
	Ops []string `json:"ops"`
	// concurrent mode: Conc > 0 = number of CopyRecent calls made while a producer goroutine writes and moves
	Conc int `json:"conc"`
	Side int `json:"side"`
}
type In struct {
	Scripts []Script `json:"scripts"`
}

func main() {
	var in In
	vh.ReadJSON(os.Args[1], &in)
	out := vh.NewOut(os.Stdout)
	defer out.Flush()
	cam := vh.Cam{X: 2, Y: 2, F: 9}
	for si, sc := range in.Scripts {
		if sc.Conc > 0 {
			runConc(out, si, sc)
			continue
		}
		runScript(out, cam, si, sc)
	}
}

// runConc: the producer uses the ring as the frame loop does (fill Current(), then Move()); the consumer calls
// CopyRecent concurrently, protected by nothing but the FrameLoop's own mutex.  Capacity >= 2, so the slot being
// filled is never the 'recent' one.
func runConc(out *vh.Out, si int, sc Script) {
	defer func() {
		if p := recover(); p != nil {
			out.Emit(map[string]interface{}{"ev": "panic", "msg": fmt.Sprint(p)})
		}
	}()
	cam := vh.Cam{X: sc.Side, Y: sc.Side, F: 9}
	fl := motion.NewFrameLoop(sc.Cap, cam)
	out.Emit(map[string]interface{}{"ev": "new", "cap": sc.Cap, "script": si})
	// the concurrent contract is the ring's own: it is judged only while the type carries a lock of its own
	hasLock := false
	rt := reflect.TypeOf(fl).Elem()
	for i := 0; i < rt.NumField(); i++ {
		if strings.HasPrefix(rt.Field(i).Type.String(), "sync.") {
			hasLock = true
		}
	}
	if !hasLock {
		out.Emit(map[string]interface{}{"ev": "conc", "cap": sc.Cap, "calls": 0, "torn": 0, "stale": 0, "moves": 0, "skipped": "FrameLoop has no lock of its own"})
		return
	}
	var moves int64
	stop := make(chan struct{})
	done := make(chan struct{})
	produce := func(tag int64) {
		f := fl.Current()
		for y := range f.Pix {
			row := f.Pix[y]
			for x := range row {
				row[x] = uint16(tag)
			}
		}
		fl.Move()
		atomic.StoreInt64(&moves, tag)
	}
	produce(1)
	produce(2)
	go func() {
		defer close(done)
		for tag := int64(3); tag < 65000; tag++ { // pixel values are 16 bit
			select {
			case <-stop:
				return
			default:
			}
			produce(tag)
		}
	}()
	torn, stale := 0, 0
	for i := 0; i < sc.Conc; i++ {
		m0 := atomic.LoadInt64(&moves)
		c := fl.CopyRecent()
		m1 := atomic.LoadInt64(&moves)
		first, last := c.Pix[0][0], c.Pix[sc.Side-1][sc.Side-1]
		mixed := first != last
		for y := 0; y < sc.Side && !mixed; y += 7 {
			if c.Pix[y][sc.Side/2] != first {
				mixed = true
			}
		}
		if mixed {
			torn++
		} else if t := int64(first); t < m0 || t > m1+1 {
			stale++
		}
	}
	close(stop)
	<-done
	out.Emit(map[string]interface{}{"ev": "conc", "cap": sc.Cap, "calls": sc.Conc, "torn": torn, "stale": stale,
		"moves": atomic.LoadInt64(&moves)})
}

func runScript(out *vh.Out, cam vh.Cam, si int, sc Script) {
	defer func() {
		if p := recover(); p != nil {
			out.Emit(map[string]interface{}{"ev": "panic", "msg": fmt.Sprint(p)})
		}
	}()
	{
		fl := motion.NewFrameLoop(sc.Cap, cam)
		out.Emit(map[string]interface{}{"ev": "new", "cap": sc.Cap, "script": si})
		tag := 0
		for _, op := range sc.Ops {
			ev := map[string]interface{}{"ev": op}
			switch op {
			case "write":
				tag++
				f := fl.Current()
				f.Pix[0][0] = uint16(tag)
				f.Pix[1][1] = uint16(tag)
				ev["tag"] = tag
			case "move":
				fl.Move()
			case "mark":
				fl.SetAsOldest()
			case "reset":
				fl.Reset()
			default:
				panic("op " + op)
			}
			h := fl.GetHistory()
			hist := make([]int, len(h))
			for i, f := range h {
				hist[i] = int(f.Pix[0][0])
			}
			ev["hist"] = hist
			ev["oldest"] = int(fl.Oldest().Pix[0][0])
			ev["recent"] = int(fl.CopyRecent().Pix[1][1])
			ev["cur"] = int(fl.Current().Pix[0][0])
			out.Emit(ev)
		}
	}
}
