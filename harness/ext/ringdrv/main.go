// ringdrv drives the real motion.FrameLoop through its exported API and logs
// the answer of every query after every operation.
package main

import (
	"fmt"
	"os"

	"github.com/TheCacophonyProject/thermal-recorder/motion"
	"github.com/TheCacophonyProject/thermal-recorder/zzverif/vh"
)

type Script struct {
	Cap int      `json:"cap"`
	Ops []string `json:"ops"`
}
type In struct {
	Scripts []Script `json:"scripts"`
}

func main() {
	var in In
	vh.ReadJSON(os.Args[1], &in)
	out := vh.NewOut(os.Stdout)
	defer out.Flush()
	cam := vh.Cam{X: 2, Y: 2, F: 9}
	for si, sc := range in.Scripts {
		runScript(out, cam, si, sc)
	}
}

func runScript(out *vh.Out, cam vh.Cam, si int, sc Script) {
	defer func() {
		if p := recover(); p != nil {
			out.Emit(map[string]interface{}{"ev": "panic", "msg": fmt.Sprint(p)})
		}
	}()
	{
		fl := motion.NewFrameLoop(sc.Cap, cam)
		out.Emit(map[string]interface{}{"ev": "new", "cap": sc.Cap, "script": si})
		tag := 0
		for _, op := range sc.Ops {
			ev := map[string]interface{}{"ev": op}
			switch op {
			case "write":
				tag++
				f := fl.Current()
				f.Pix[0][0] = uint16(tag)
				f.Pix[1][1] = uint16(tag)
				ev["tag"] = tag
			case "move":
				fl.Move()
			case "mark":
				fl.SetAsOldest()
			case "reset":
				fl.Reset()
			default:
				panic("op " + op)
			}
			h := fl.GetHistory()
			hist := make([]int, len(h))
			for i, f := range h {
				hist[i] = int(f.Pix[0][0])
			}
			ev["hist"] = hist
			ev["oldest"] = int(fl.Oldest().Pix[0][0])
			ev["recent"] = int(fl.CopyRecent().Pix[1][1])
			ev["cur"] = int(fl.Current().Pix[0][0])
			out.Emit(ev)
		}
	}
}
