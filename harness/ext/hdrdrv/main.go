// hdrdrv: camera descriptions encoded the way leptond encodes them (yaml.v1
// map marshal + blank line) are fed to headers.ReadHeaderInfo through a
// bufio.Reader over a reader that returns the bytes in scripted chunk sizes.
package main

import (
	"bufio"
	"bytes"
	"io"
	"os"
	"time"

	"github.com/TheCacophonyProject/thermal-recorder/headers"
	"github.com/TheCacophonyProject/thermal-recorder/zzverif/vh"
	yaml "gopkg.in/yaml.v1"
)

type chunked struct {
	b     []byte
	sizes []int
	k     int
}

func (c *chunked) Read(p []byte) (int, error) {
	if len(c.b) == 0 {
		return 0, io.EOF
	}
	n := len(p)
	if len(c.sizes) > 0 {
		s := c.sizes[c.k%len(c.sizes)]
		c.k++
		if s > 0 && s < n {
			n = s
		}
	}
	if n > len(c.b) {
		n = len(c.b)
	}
	copy(p, c.b[:n])
	c.b = c.b[n:]
	return n, nil
}

type Script struct {
	Header map[string]interface{} `json:"header"`
	Sizes  []int                  `json:"sizes"`
	Rest   string                 `json:"rest"`
	Blank  string                 `json:"blank"` // the blank line, "\n" unless given
}

func fields(h *headers.HeaderInfo) map[string]interface{} {
	return map[string]interface{}{headers.XResolution: h.ResX(), headers.YResolution: h.ResY(), headers.FPS: h.FPS(),
		headers.FrameSize: h.FrameSize(), headers.Brand: h.Brand(), headers.Model: h.Model(),
		headers.Serial: h.CameraSerial(), headers.Firmware: h.Firmware()}
}

func main() {
	var in struct {
		Scripts []Script `json:"scripts"`
	}
	vh.ReadJSON(os.Args[1], &in)
	out := vh.NewOut(os.Stdout)
	defer out.Flush()
	out.Emit(map[string]interface{}{"ev": "keys", "bin": "headers", "keys": []string{headers.XResolution, headers.YResolution,
		headers.FPS, headers.FrameSize, headers.Brand, headers.Model, headers.Serial, headers.Firmware}})
	for si, sc := range in.Scripts {
		for k, v := range sc.Header { // JSON numbers arrive as float64; the camera daemon sends ints
			if f, ok := v.(float64); ok && f == float64(int64(f)) {
				sc.Header[k] = int(f)
			}
		}
		enc, err := yaml.Marshal(sc.Header)
		if err != nil {
			panic(err)
		}
		blank := sc.Blank
		if blank == "" {
			blank = "\n"
		}
		hdr := append(append([]byte{}, enc...), []byte(blank)...)
		stream := append(append([]byte{}, hdr...), []byte(sc.Rest)...)
		r := bufio.NewReader(&chunked{b: stream, sizes: sc.Sizes})
		h, err := headers.ReadHeaderInfo(r)
		ev := map[string]interface{}{"ev": "hdr", "script": si, "sent": sc.Header, "err": err != nil, "text": string(enc)}
		if err == nil {
			ev["parsed"] = fields(h)
			rest, _ := io.ReadAll(r)
			ev["rest_ok"] = bytes.Equal(rest, []byte(sc.Rest))
		}
		out.Emit(ev)
		// every truncation point of the header: must be an error, promptly
		accepted := []int{}
		slow := []int{}
		for cut := 0; cut < len(hdr); cut++ {
			t0 := time.Now()
			rr := bufio.NewReader(&chunked{b: append([]byte{}, hdr[:cut]...), sizes: sc.Sizes})
			_, err := headers.ReadHeaderInfo(rr)
			if err == nil {
				accepted = append(accepted, cut)
			}
			if time.Since(t0) > time.Second {
				slow = append(slow, cut)
			}
		}
		out.Emit(map[string]interface{}{"ev": "hdrcut", "script": si, "len": len(hdr), "accepted": accepted, "slow": slow})
	}
}
