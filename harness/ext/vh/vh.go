// Package vh holds helpers shared by the verification drivers: tiny camera
// specs, raw Lepton frame construction, ndjson output.
package vh

import (
	"bufio"
	"encoding/json"
	"io"
	"os"
)

// Cam is a cptvframe.CameraSpec with arbitrary small resolutions.
type Cam struct{ X, Y, F int }

func (c Cam) ResX() int { return c.X }
func (c Cam) ResY() int { return c.Y }
func (c Cam) FPS() int  { return c.F }

const TelemetryBytes = 640 // lepton3: 4 telemetry packets of 160 bytes

// RawLepton builds a raw Lepton 3 frame (telemetry block + big-endian pixels).
// timeOnMs / lastFFCMs are written in the Big16 word order the parser expects
// (32-bit values low word first).
func RawLepton(c Cam, timeOnMs, lastFFCMs uint32, pix func(y, x int) uint16) []byte {
	raw := make([]byte, TelemetryBytes+2*c.X*c.Y)
	SetTelemetry(raw, timeOnMs, lastFFCMs)
	i := TelemetryBytes
	for y := 0; y < c.Y; y++ {
		for x := 0; x < c.X; x++ {
			v := pix(y, x)
			raw[i] = byte(v >> 8)
			raw[i+1] = byte(v)
			i += 2
		}
	}
	return raw
}

func put32(raw []byte, word int, v uint32) {
	// Big16 order: each 16-bit word big endian, 32-bit values low word first.
	o := word * 2
	raw[o] = byte(v >> 8)
	raw[o+1] = byte(v)
	raw[o+2] = byte(v >> 24)
	raw[o+3] = byte(v >> 16)
}

// SetTelemetry writes TimeOn (word 1) and TimeCounterLastFFC (word 30).
func SetTelemetry(raw []byte, timeOnMs, lastFFCMs uint32) {
	put32(raw, 1, timeOnMs)
	put32(raw, 30, lastFFCMs)
}

// Out is an ndjson writer.
type Out struct {
	w   *bufio.Writer
	enc *json.Encoder
}

func NewOut(w io.Writer) *Out {
	bw := bufio.NewWriterSize(w, 1<<20)
	return &Out{w: bw, enc: json.NewEncoder(bw)}
}
func (o *Out) Emit(v interface{}) {
	if err := o.enc.Encode(v); err != nil {
		panic(err)
	}
}
func (o *Out) Flush() { o.w.Flush() }

func ReadJSON(path string, v interface{}) {
	b, err := os.ReadFile(path)
	if err != nil {
		panic(err)
	}
	if err := json.Unmarshal(b, v); err != nil {
		panic(err)
	}
}
