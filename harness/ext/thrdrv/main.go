// thrdrv drives the real throttle.ThrottledRecorder with a scripted clock.
// Mode "direct": upstream calls come from the script.  Mode "proc": the real
// MotionProcessor (with the real detector) is the upstream client.
// Every upstream call becomes one event carrying the base-recorder calls it
// caused, the number of WhenThrottled notifications and the returned error.
package main

import (
	"errors"
	"fmt"
	"io"
	"log"
	"os"
	"time"

	config "github.com/TheCacophonyProject/go-config"
	"github.com/TheCacophonyProject/go-cptv/cptvframe"
	"github.com/TheCacophonyProject/lepton3"
	"github.com/TheCacophonyProject/thermal-recorder/motion"
	"github.com/TheCacophonyProject/thermal-recorder/recorder"
	"github.com/TheCacophonyProject/thermal-recorder/throttle"
	"github.com/TheCacophonyProject/window"

	"github.com/TheCacophonyProject/thermal-recorder/zzverif/vh"
)

type clk struct{ now time.Time }

func (c *clk) Now() time.Time        { return c.now }
func (c *clk) Sleep(d time.Duration) { c.now = c.now.Add(d) }

type BCall struct {
	Op   string `json:"op"`
	Ok   bool   `json:"ok"`
	Same bool   `json:"same"`
}

// base is the wrapped recorder: logs what reaches storage.
type base struct {
	calls   []BCall
	startOK bool
	stopOK  bool
	diskOK  bool
	wantBg  *cptvframe.Frame
	wantT   uint16
	wantF   *cptvframe.Frame
}

func (b *base) StopRecording() error {
	b.calls = append(b.calls, BCall{"stop", b.stopOK, true})
	if !b.stopOK {
		return errors.New("injected stop failure")
	}
	return nil
}
func (b *base) StartRecording(bg *cptvframe.Frame, t uint16) error {
	b.calls = append(b.calls, BCall{"start", b.startOK, bg == b.wantBg && t == b.wantT})
	if !b.startOK {
		return errors.New("injected")
	}
	return nil
}
func (b *base) WriteFrame(f *cptvframe.Frame) error {
	b.calls = append(b.calls, BCall{"w", true, f == b.wantF})
	return nil
}
func (b *base) CheckCanRecord() error {
	if !b.diskOK {
		return errors.New("injected: not enough free disk space")
	}
	return nil
}

type lst struct{ n int }

func (l *lst) WhenThrottled() { l.n++ }

type Step struct {
	A      string `json:"a"`
	D      int    `json:"d"`    // ms
	Ok     *bool  `json:"ok"`   // base start result if it is reached
	Sok    *bool  `json:"sok"`  // base stop result if it is reached
	Disk   *bool  `json:"disk"` // proc mode: result of the storage layer's free-disk-space check on this frame
	Motion bool   `json:"motion"`
}
type Cfg struct {
	Fps     int `json:"fps"`
	BucketS int `json:"bucket"`  // bucket-size seconds
	MinLenS int `json:"minlen"`  // min-secs + preview-secs (direct mode)
	K       int `json:"k"`       // ms per token; min-refill = K * minlen*fps ms
	Preview int `json:"preview"` // proc mode
	Trig    int `json:"trig"`
	Min     int `json:"min"`
	Max     int `json:"max"`
}
type Script struct {
	Mode  string `json:"mode"`
	Cfg   Cfg    `json:"cfg"`
	Steps []Step `json:"steps"`
}
type In struct {
	Scripts []Script `json:"scripts"`
}

// tap sits between the client and the throttle and turns every upstream call
// into an event.
type tap struct {
	th   *throttle.ThrottledRecorder
	b    *base
	l    *lst
	c    *clk
	out  *vh.Out
	last time.Time
	upBg *cptvframe.Frame
	upT  uint16
}

func (t *tap) emit(op string, err error, n0 int) {
	dt := int(t.c.now.Sub(t.last) / time.Millisecond)
	t.last = t.c.now
	calls := append([]BCall{}, t.b.calls...)
	t.b.calls = t.b.calls[:0]
	t.out.Emit(map[string]interface{}{"ev": "call", "op": op, "dt": dt, "base": calls, "nev": t.l.n - n0, "err": err != nil})
}
func (t *tap) StartRecording(bg *cptvframe.Frame, th uint16) error {
	n0 := t.l.n
	t.b.wantBg, t.b.wantT = bg, th
	err := t.th.StartRecording(bg, th)
	t.emit("start", err, n0)
	return err
}
func (t *tap) WriteFrame(f *cptvframe.Frame) error {
	n0 := t.l.n
	t.b.wantF = f
	err := t.th.WriteFrame(f)
	t.emit("w", err, n0)
	return err
}
func (t *tap) StopRecording() error {
	n0 := t.l.n
	err := t.th.StopRecording()
	t.emit("stop", err, n0)
	return err
}
func (t *tap) CheckCanRecord() error { return t.th.CheckCanRecord() }

func main() {
	log.SetOutput(io.Discard)
	var in In
	vh.ReadJSON(os.Args[1], &in)
	out := vh.NewOut(os.Stdout)
	defer out.Flush()
	for si, sc := range in.Scripts {
		runOne(out, si, sc)
	}
}

func runOne(out *vh.Out, si int, sc Script) {
	defer func() {
		if p := recover(); p != nil {
			out.Emit(map[string]interface{}{"ev": "call", "op": "panic", "dt": 0, "base": []BCall{}, "nev": 0, "err": true, "msg": fmt.Sprint(p)})
		}
	}()
	{
		cfg := sc.Cfg
		cam := vh.Cam{X: 4, Y: 4, F: cfg.Fps}
		minLenS := cfg.MinLenS
		if sc.Mode == "proc" {
			minLenS = cfg.Min + cfg.Preview // as wired in cmd/thermal-recorder/main.go
		}
		minFrames := minLenS * cfg.Fps
		c := &clk{now: time.Unix(100000, 0)}
		b := &base{startOK: true, stopOK: true, diskOK: true}
		l := &lst{}
		conf := &config.ThermalThrottler{Activate: true, BucketSize: time.Duration(cfg.BucketS) * time.Second,
			MinRefill: time.Duration(cfg.K*minFrames) * time.Millisecond}
		// the configuration in the property's terms
		out.Emit(map[string]interface{}{"ev": "new", "script": si, "mode": sc.Mode, "Cap": cfg.BucketS * cfg.Fps, "MinLen": minFrames, "K": cfg.K})
		th := throttle.NewThrottledRecorderWithClock(b, conf, minLenS, l, c, cam)
		t := &tap{th: th, b: b, l: l, c: c, out: out, last: c.now}
		if sc.Mode == "proc" {
			w, _ := window.New("12:00", "12:00", 0, 0)
			rc := &recorder.RecorderConfig{MinSecs: cfg.Min, MaxSecs: cfg.Max, PreviewSecs: cfg.Preview, Window: *w}
			mc := &config.ThermalMotion{TempThresh: 1000, DeltaThresh: 10, CountThresh: 1, FrameCompareGap: 1,
				UseOneDiffOnly: true, TriggerFrames: cfg.Trig}
			var rec recorder.Recorder = t
			mp := motion.NewMotionProcessor(lepton3.ParseRawFrame, mc, rc, &config.Location{}, nil, rec, cam, nil, new(recorder.NoWriteRecorder))
			hot := false
			n := 0
			for _, st := range sc.Steps {
				c.now = c.now.Add(time.Duration(st.D) * time.Millisecond)
				switch st.A {
				case "frame":
					if st.Motion {
						hot = !hot
					}
					v := uint16(2000)
					if hot {
						v = 3000
					}
					n++
					raw := vh.RawLepton(cam, uint32(60000+n*100), 0, func(y, x int) uint16 { return v })
					b.startOK = st.Ok == nil || *st.Ok
					b.stopOK = st.Sok == nil || *st.Sok
					b.diskOK = st.Disk == nil || *st.Disk
					out.Emit(map[string]interface{}{"ev": "pframe", "disk": b.diskOK, "motion": st.Motion})
					mp.Process(raw)
				case "reset":
					b.stopOK = st.Sok == nil || *st.Sok
					mp.Reset(cam)
				}
			}
			return
		}
		f := cptvframe.NewFrame(cam)
		bgs := []*cptvframe.Frame{cptvframe.NewFrame(cam), cptvframe.NewFrame(cam), cptvframe.NewFrame(cam)}
		nstart := 0
		upOpen := false
		for _, st := range sc.Steps {
			b.startOK = st.Ok == nil || *st.Ok
			b.stopOK = st.Sok == nil || *st.Sok
			switch st.A {
			case "adv":
				c.now = c.now.Add(time.Duration(st.D) * time.Millisecond)
			case "start":
				c.now = c.now.Add(time.Duration(st.D) * time.Millisecond)
				if upOpen {
					continue
				}
				// every trigger has its own background frame and threshold
				nstart++
				if err := t.StartRecording(bgs[nstart%len(bgs)], uint16(100+nstart)); err == nil {
					upOpen = true
				}
			case "w":
				c.now = c.now.Add(time.Duration(st.D) * time.Millisecond)
				if !upOpen {
					continue
				}
				t.WriteFrame(f)
			case "stop":
				c.now = c.now.Add(time.Duration(st.D) * time.Millisecond)
				if !upOpen {
					continue
				}
				t.StopRecording()
				upOpen = false
			}
		}
	}
}
