//go:build verif

package main

import "github.com/TheCacophonyProject/thermal-recorder/motion"

func setNoLimit(mp *motion.MotionProcessor) { motion.VerifSetLogInterval(mp, 0) }
