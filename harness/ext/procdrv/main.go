// procdrv runs scripts (from the TLC state graph of ProcReplay.tla, from TLC
// -simulate, or from the seeded generators) against the REAL
// motion.MotionProcessor with the real motion detector in front and scripted
// mock sinks behind it, and writes everything observable as ndjson.
package main

import (
	"errors"
	"fmt"
	"io"
	"log"
	"os"
	"time"

	config "github.com/TheCacophonyProject/go-config"
	"github.com/TheCacophonyProject/go-cptv/cptvframe"
	"github.com/TheCacophonyProject/lepton3"
	"github.com/TheCacophonyProject/thermal-recorder/motion"
	"github.com/TheCacophonyProject/thermal-recorder/recorder"
	"github.com/TheCacophonyProject/thermal-recorder/throttle"
	"github.com/TheCacophonyProject/window"

	"github.com/TheCacophonyProject/thermal-recorder/zzverif/vh"
)

type Call struct {
	S  string `json:"s"`
	Op string `json:"op"`
	Id int    `json:"id"`
	Ok bool   `json:"ok"`
}

type Step struct {
	A      string      `json:"a"`
	Motion bool        `json:"motion"`
	Win    interface{} `json:"win"` // true / false / "edge_s" / "edge_e"
	Disk   *bool       `json:"disk"`
	MStart *bool       `json:"mStart"`
	MPre   int         `json:"mPre"`
	MW     *bool       `json:"mW"`
	MStop  *bool       `json:"mStop"`
	CStart *bool       `json:"cStart"`
	CW     *bool       `json:"cW"`
	CStop  *bool       `json:"cStop"`
	SStart *bool       `json:"sStart"`
	SW     *bool       `json:"sW"`
	SStop  *bool       `json:"sStop"`
	Zero   int         `json:"zero"` // bad frame: index of the zero pixel
	FFC    bool        `json:"ffc"`  // the frame's telemetry says a flat-field correction happened 3 s ago
}

func b(p *bool) bool { return p == nil || *p }

type Cfg struct {
	Fps     int   `json:"fps"`
	Preview int   `json:"preview"`
	Trig    int   `json:"trig"`
	Min     int   `json:"min"`
	Max     int   `json:"max"`
	Const   bool  `json:"const"`
	Win     []int `json:"win"` // [startMinuteOfDay, endMinuteOfDay] or empty = no window
	Shadow  bool  `json:"shadow"`
	ResX    int   `json:"resx"`
	ResY    int   `json:"resy"`
	// Thr: the motion sink sits behind the real ThrottledRecorder with a budget nothing can exhaust (as handleConn
	// wires it when throttling is active): everything the processor does must look the same at the storage layer
	Thr bool `json:"thr"`
	// NoLimit: the processor's log limiter is replaced by one that suppresses nothing (attempted messages)
	NoLimit bool `json:"nolimit"`
}

type Script struct {
	Cfg   Cfg    `json:"cfg"`
	Steps []Step `json:"steps"`
}

type In struct {
	Scripts []Script `json:"scripts"`
}

// sink is a scripted recorder.Recorder.
type sink struct {
	name    string
	calls   *[]Call
	cur     *int // id of the frame being processed
	diskOK  bool
	startOK bool
	wOK     bool
	stopOK  bool
	preFail int // the k-th pre-trigger write of this step fails (0 = none)
	nPre    int
}

var errInj = errors.New("injected failure")

func (s *sink) StopRecording() error {
	*s.calls = append(*s.calls, Call{s.name, "stop", 0, s.stopOK})
	if !s.stopOK {
		return errInj
	}
	return nil
}
func (s *sink) StartRecording(bg *cptvframe.Frame, t uint16) error {
	*s.calls = append(*s.calls, Call{s.name, "start", 0, s.startOK})
	if !s.startOK {
		return errInj
	}
	return nil
}
func (s *sink) WriteFrame(f *cptvframe.Frame) error {
	id := int(f.Pix[0][0])
	ok := true
	if id < *s.cur {
		s.nPre++
		if s.nPre == s.preFail {
			ok = false
		}
	} else {
		ok = s.wOK
	}
	*s.calls = append(*s.calls, Call{s.name, "w", id, ok})
	if !ok {
		return errInj
	}
	return nil
}
func (s *sink) CheckCanRecord() error {
	if s.diskOK {
		return nil
	}
	return errors.New("disk")
}

type lis struct{ motion bool }

func (l *lis) MotionDetected()   { l.motion = true }
func (l *lis) RecordingStarted() {}
func (l *lis) RecordingEnded()   {}

type rig struct {
	mp      *motion.MotionProcessor
	m, c, s *sink
	l       *lis
	calls   []Call
	cur     int
	now     time.Time
}

func newRig(cfg Cfg, cam vh.Cam, constOn bool) *rig {
	r := &rig{}
	ws, we := "12:00", "12:00"
	if len(cfg.Win) == 2 {
		ws = fmt.Sprintf("%02d:%02d", cfg.Win[0]/60, cfg.Win[0]%60)
		we = fmt.Sprintf("%02d:%02d", cfg.Win[1]/60, cfg.Win[1]%60)
	}
	w, err := window.New(ws, we, 0, 0)
	if err != nil {
		panic(err)
	}
	w.Now = func() time.Time { return r.now }
	rc := &recorder.RecorderConfig{MinSecs: cfg.Min, MaxSecs: cfg.Max, PreviewSecs: cfg.Preview, Window: *w}
	mc := &config.ThermalMotion{TempThresh: 1000, DeltaThresh: 10, CountThresh: 1, FrameCompareGap: 1,
		UseOneDiffOnly: true, TriggerFrames: cfg.Trig}
	r.m = &sink{name: "m", calls: &r.calls, cur: &r.cur}
	r.s = &sink{name: "s", calls: &r.calls, cur: &r.cur}
	r.l = &lis{}
	var crr recorder.Recorder
	if constOn {
		r.c = &sink{name: "c", calls: &r.calls, cur: &r.cur}
		crr = r.c
	} else {
		r.c = &sink{} // unused
	}
	var mrec recorder.Recorder = r.m
	if cfg.Thr {
		minLen := cfg.Min + cfg.Preview
		if minLen < 1 {
			minLen = 1 // min-secs + preview-secs = 0 cannot be constructed at all (known finding F-C06-1)
		}
		tc := &config.ThermalThrottler{Activate: true, BucketSize: 1000000 * time.Second, MinRefill: time.Second}
		mrec = throttle.NewThrottledRecorder(r.m, tc, minLen, nil, cam)
	}
	r.mp = motion.NewMotionProcessor(lepton3.ParseRawFrame, mc, rc, &config.Location{}, r.l, mrec, cam, crr, r.s)
	return r
}

func (r *rig) arm(st Step) {
	r.calls = r.calls[:0]
	r.m.diskOK, r.m.startOK, r.m.wOK, r.m.stopOK, r.m.preFail, r.m.nPre = b(st.Disk), b(st.MStart), b(st.MW), b(st.MStop), st.MPre, 0
	r.c.diskOK, r.c.startOK, r.c.wOK, r.c.stopOK = true, b(st.CStart), b(st.CW), b(st.CStop)
	r.s.diskOK, r.s.startOK, r.s.wOK, r.s.stopOK = true, b(st.SStart), b(st.SW), b(st.SStop)
	r.l.motion = false
}

func (r *rig) snapshotCalls() []Call { return append([]Call{}, r.calls...) }

func projM(cs []Call) [][]interface{} {
	out := [][]interface{}{}
	for _, c := range cs {
		if c.S == "m" {
			out = append(out, []interface{}{c.Op, c.Id})
		}
	}
	return out
}

const poison = 60000

func runScript(out *vh.Out, sc Script, idx int) {
	cfg := sc.Cfg
	if cfg.ResX == 0 {
		cfg.ResX, cfg.ResY = 4, 4
	}
	cam := vh.Cam{X: cfg.ResX, Y: cfg.ResY, F: cfg.Fps}
	winS, winE := 0, 0
	if len(cfg.Win) == 2 {
		winS, winE = cfg.Win[0]*60, cfg.Win[1]*60
	}
	// The configuration in the property's own terms (computed here, not read from the code).
	out.Emit(map[string]interface{}{"ev": "cfg", "script": idx,
		"N": cfg.Preview*cfg.Fps + cfg.Trig, "TrigF": cfg.Trig, "MinF": cfg.Min * cfg.Fps, "MaxF": cfg.Max * cfg.Fps,
		"ConstOn": cfg.Const, "SnapLen": 20, "fps": cfg.Fps, "winS": winS, "winE": winE})
	main := newRig(cfg, cam, cfg.Const)
	if cfg.NoLimit {
		setNoLimit(main.mp)
	}
	var shadow *rig
	if cfg.Shadow {
		shadow = newRig(cfg, cam, false)
	}
	rigs := []*rig{main}
	if shadow != nil {
		rigs = append(rigs, shadow)
	}
	accepted := 0
	hot := false
	day := time.Date(2021, 3, 4, 0, 0, 0, 0, time.UTC)
	inT, outT := 0, 0 // seconds of day inside / outside the window
	if winS != winE {
		if winS < winE {
			inT, outT = (winS+winE)/2, (winE+86400+winS)/2%86400
		} else {
			inT, outT = (winS+winE+86400)/2%86400, (winS+winE)/2
		}
	}
	tick := 0
	for si, st := range sc.Steps {
		func() {
			defer func() {
				if p := recover(); p != nil {
					out.Emit(map[string]interface{}{"ev": "panic", "step": si, "msg": fmt.Sprint(p)})
					panic(abort{})
				}
			}()
			switch st.A {
			case "snapreq":
				main.mp.StartSnapshot = true
				out.Emit(map[string]interface{}{"ev": "snapreq"})
			case "reset":
				for _, r := range rigs {
					r.arm(st)
					capture(r, main, func() { r.mp.Reset(cam) })
				}
				ev := map[string]interface{}{"ev": "reset", "calls": main.snapshotCalls()}
				takeLogs(ev)
				if shadow != nil {
					ev["calls2"] = projM(shadow.calls)
				}
				out.Emit(ev)
			case "bad":
				raw := vh.RawLepton(cam, uint32(60000+accepted*1000), 0, func(y, x int) uint16 { return 2000 })
				raw[vh.TelemetryBytes], raw[vh.TelemetryBytes+1] = byte(poison>>8), byte(poison&0xff)
				z := st.Zero % (cam.X * cam.Y)
				if z == 0 {
					z = 1 + (si % (cam.X*cam.Y - 1))
				}
				raw[vh.TelemetryBytes+2*z], raw[vh.TelemetryBytes+2*z+1] = 0, 0
				var isBad bool
				for _, r := range rigs {
					r.arm(st)
					var err error
					capture(r, main, func() { err = r.mp.Process(raw) })
					if r == main {
						_, isBad = err.(*lepton3.BadFrameErr)
					}
				}
				ev := map[string]interface{}{"ev": "bad", "isbad": isBad, "calls": main.snapshotCalls()}
				takeLogs(ev)
				if shadow != nil {
					ev["calls2"] = projM(shadow.calls)
				}
				out.Emit(ev)
			case "frame":
				if st.Motion {
					hot = !hot
				}
				v := uint16(2000)
				if hot {
					v = 3000
				}
				accepted++
				id := accepted
				lastFFC := uint32(0)
				if st.FFC {
					lastFFC = uint32(60000+accepted*1000) - 3000
				}
				raw := vh.RawLepton(cam, uint32(60000+accepted*1000), lastFFC, func(y, x int) uint16 {
					if y == 0 && x == 0 {
						return uint16(id)
					}
					return v
				})
				// wall clock for the window gate
				nowS := 0
				switch w := st.Win.(type) {
				case bool:
					tick++
					if w {
						nowS = inT
					} else {
						nowS = outT
					}
					if winS != winE { // move around inside the chosen side, never onto a boundary
						nowS = (nowS + (tick*37)%120 - 60 + 86400) % 86400
						if nowS == winS || nowS == winE {
							nowS = (nowS + 1) % 86400
						}
					}
				case string:
					if w == "edge_s" {
						nowS = winS
					} else {
						nowS = winE
					}
				default:
					nowS = inT
				}
				var perr error
				for _, r := range rigs {
					r.now = day.Add(time.Duration(nowS) * time.Second)
					r.arm(st)
					r.cur = id
					var err error
					capture(r, main, func() { err = r.mp.Process(raw) })
					if r == main {
						perr = err
					}
				}
				ev := map[string]interface{}{"ev": "frame", "id": id, "motion": main.l.motion, "want": st.Motion,
					"now": nowS, "disk": b(st.Disk), "err": perr != nil, "calls": main.snapshotCalls()}
				takeLogs(ev)
				if shadow != nil {
					ev["calls2"] = projM(shadow.calls)
				}
				out.Emit(ev)
			default:
				panic("unknown step " + st.A)
			}
		}()
	}
}

type abort struct{}

// logCap captures what the processor under test prints (everything it prints goes through its log limiter), with
// the wall-clock time of each line, while capOn is set (only around calls into the main rig).
type logCap struct {
	on    bool
	t0    time.Time
	lines []map[string]interface{}
}

func (c *logCap) Write(p []byte) (int, error) {
	if c.on {
		c.lines = append(c.lines, map[string]interface{}{"out": string(p), "now": time.Since(c.t0).Milliseconds()})
	}
	return len(p), nil
}

var lcap = &logCap{t0: time.Now()}
var wantLogs = os.Getenv("VERIF_LOGS") != ""

func capture(r, main *rig, f func()) {
	lcap.on = wantLogs && r == main
	defer func() { lcap.on = false }()
	f()
}

func takeLogs(ev map[string]interface{}) {
	if wantLogs {
		if lcap.lines == nil {
			lcap.lines = []map[string]interface{}{}
		}
		ev["logs"] = lcap.lines
		lcap.lines = nil
	}
}

func main() {
	log.SetOutput(io.Discard)
	if wantLogs {
		log.SetFlags(0)
		log.SetOutput(lcap)
	}
	var in In
	vh.ReadJSON(os.Args[1], &in)
	out := vh.NewOut(os.Stdout)
	defer out.Flush()
	for i, sc := range in.Scripts {
		func() {
			defer func() {
				if p := recover(); p != nil {
					if _, ok := p.(abort); !ok {
						panic(p)
					}
				}
			}()
			runScript(out, sc, i)
		}()
	}
}
