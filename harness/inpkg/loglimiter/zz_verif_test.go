//go:build verif

package loglimiter

import (
	"bytes"
	"encoding/json"
	"log"
	"os"
	"testing"
	"time"
)

type vScript struct {
	Interval int `json:"interval"` // ms
	Steps    []struct {
		Msg    string `json:"msg"`
		Now    int    `json:"now"` // ms since base
		Printf bool   `json:"printf"`
	} `json:"steps"`
}

// TestVerifDriver replays scripts against the real LogLimiter with an injected
// clock and the standard logger captured.
func TestVerifDriver(t *testing.T) {
	in := os.Getenv("VERIF_SCRIPT")
	if in == "" {
		t.Skip("driver only")
	}
	b, err := os.ReadFile(in)
	if err != nil {
		t.Fatal(err)
	}
	var scripts struct {
		Scripts []vScript `json:"scripts"`
	}
	if err := json.Unmarshal(b, &scripts); err != nil {
		t.Fatal(err)
	}
	f, err := os.Create(os.Getenv("VERIF_OUT"))
	if err != nil {
		t.Fatal(err)
	}
	defer f.Close()
	enc := json.NewEncoder(f)
	var buf bytes.Buffer
	log.SetOutput(&buf)
	log.SetFlags(0)
	base := time.Date(2021, 5, 6, 7, 8, 9, 0, time.UTC)
	for i, sc := range scripts.Scripts {
		lim := New(time.Duration(sc.Interval) * time.Millisecond)
		var now time.Time
		lim.nowFunc = func() time.Time { return now }
		enc.Encode(map[string]interface{}{"ev": "new", "interval": sc.Interval, "script": i})
		for _, st := range sc.Steps {
			now = base.Add(time.Duration(st.Now) * time.Millisecond)
			buf.Reset()
			if st.Printf {
				lim.Printf("%s", st.Msg)
			} else {
				lim.Print(st.Msg)
			}
			enc.Encode(map[string]interface{}{"ev": "print", "msg": st.Msg, "now": st.Now, "out": buf.String()})
		}
	}
}
