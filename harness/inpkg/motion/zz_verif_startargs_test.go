//go:build verif

package motion

import (
	"bufio"
	"encoding/json"
	"errors"
	"os"
	"testing"
	"time"

	config "github.com/TheCacophonyProject/go-config"
	"github.com/TheCacophonyProject/go-cptv/cptvframe"
	"github.com/TheCacophonyProject/thermal-recorder/recorder"
	"github.com/TheCacophonyProject/thermal-recorder/throttle"
	"github.com/TheCacophonyProject/window"
)

type vsClock struct{ now time.Time }

func (c *vsClock) Now() time.Time        { return c.now }
func (c *vsClock) Sleep(d time.Duration) { c.now = c.now.Add(d) }

// vsSink is the storage end of the chain: it records what every StartRecording was given.
type vsSink struct {
	mp    *MotionProcessor
	tap   *vsTap
	enc   *json.Encoder
	frame int
	// stopFail: the next StopRecording reports a storage error (the recording is over all the same)
	stopFail bool
	stops    int
}

// vsLis notes the detector's verdict as the processor reports it.
type vsLis struct{ motion bool }

func (l *vsLis) MotionDetected()   { l.motion = true }
func (l *vsLis) RecordingStarted() {}
func (l *vsLis) RecordingEnded()   {}

func (s *vsSink) StartRecording(bg *cptvframe.Frame, th uint16) error {
	d := s.mp.motionDetector
	ev := map[string]interface{}{"ev": "sstart", "frame": s.frame, "thresh": int(th), "trig_thresh": s.tap.trigThresh,
		"det_thresh": int(d.tempThresh), "same_bg_object": bg == d.background}
	if bg != nil {
		ev["bg"] = vPix(bg)
		ev["det_bg"] = vPix(d.background)
	} else {
		ev["bg"] = [][]int{}
		ev["det_bg"] = vPix(d.background)
	}
	s.enc.Encode(ev)
	return nil
}
func (s *vsSink) StopRecording() error {
	s.stops++
	if s.stopFail {
		s.stopFail = false
		return errors.New("injected stop failure")
	}
	return nil
}
func (s *vsSink) WriteFrame(f *cptvframe.Frame) error { return nil }
func (s *vsSink) CheckCanRecord() error               { return nil }

// vsTap sits where the processor calls its recorder: it notes the threshold of each trigger.
type vsTap struct {
	next       recorder.Recorder
	trigThresh int
}

func (t *vsTap) StartRecording(bg *cptvframe.Frame, th uint16) error {
	t.trigThresh = int(th)
	return t.next.StartRecording(bg, th)
}
func (t *vsTap) StopRecording() error                { return t.next.StopRecording() }
func (t *vsTap) WriteFrame(f *cptvframe.Frame) error { return t.next.WriteFrame(f) }
func (t *vsTap) CheckCanRecord() error               { return t.next.CheckCanRecord() }

type vsScript struct {
	Cfg      vDetCfg `json:"cfg"`
	Fps      int     `json:"fps"`
	PrevSecs int     `json:"preview_secs"`
	MinSecs  int     `json:"min_secs"`
	MaxSecs  int     `json:"max_secs"`
	Trig     int     `json:"trig"`
	Throttle *struct {
		BucketS int `json:"bucket"`
		K       int `json:"k"`
		FrameMs int `json:"frame_ms"`
	} `json:"throttle"`
	Steps []vDetStep `json:"steps"`
	// Windowed: the processor gets a recording window and steps may be marked `closed`
	Windowed bool `json:"windowed"`
	// Kind "history": a second processor is fed pix2 in lock-step (streams equal from some FFC period / reset on)
	Kind string `json:"kind"`
}

// vsQuiet is the storage of the twin processor: it accepts everything and records nothing.
type vsQuiet struct{}

func (vsQuiet) StartRecording(bg *cptvframe.Frame, th uint16) error { return nil }
func (vsQuiet) StopRecording() error                                { return nil }
func (vsQuiet) WriteFrame(f *cptvframe.Frame) error                 { return nil }
func (vsQuiet) CheckCanRecord() error                               { return nil }

// TestVerifStartArgs: real detector + real MotionProcessor (+ real ThrottledRecorder with a manual clock): the
// background and threshold that reach storage with every (re)started file.
func TestVerifStartArgs(t *testing.T) {
	in, outp := os.Getenv("VERIF_SCRIPT"), os.Getenv("VERIF_OUT")
	if in == "" || outp == "" {
		t.Skip("driver only")
	}
	b, _ := os.ReadFile(in)
	var all struct {
		Scripts []vsScript `json:"scripts"`
	}
	if err := json.Unmarshal(b, &all); err != nil {
		t.Fatal(err)
	}
	fo, _ := os.Create(outp)
	defer fo.Close()
	bw := bufio.NewWriterSize(fo, 1<<20)
	defer bw.Flush()
	enc := json.NewEncoder(bw)
	for si, sc := range all.Scripts {
		c := sc.Cfg
		cam := vCam{c.W, c.H, sc.Fps}
		mconf := config.ThermalMotion{TempThresh: uint16(c.T), DeltaThresh: uint16(c.Delta), CountThresh: c.Cnt,
			FrameCompareGap: c.Gap, UseOneDiffOnly: c.One, WarmerOnly: c.Warmer, EdgePixels: c.Edge,
			DynamicThreshold: c.Dyn, TempThreshMin: uint16(c.Tmin), TempThreshMax: uint16(c.Tmax), TriggerFrames: sc.Trig}
		var cur *vDetStep
		w, _ := window.New("12:00", "12:00", 0, 0)
		if sc.Windowed {
			// a real recording window; the script says for each frame whether it arrives inside or outside it
			w, _ = window.New("10:00", "14:00", 0, 0)
			w.Now = func() time.Time {
				if cur != nil && cur.Closed {
					return time.Date(2020, 1, 15, 16, 0, 0, 0, time.Local)
				}
				return time.Date(2020, 1, 15, 12, 0, 0, 0, time.Local)
			}
		}
		rconf := &recorder.RecorderConfig{MinSecs: sc.MinSecs, MaxSecs: sc.MaxSecs, PreviewSecs: sc.PrevSecs, Window: *w}
		mkParser := func(second bool) func(raw []byte, out *cptvframe.Frame, edge int) error {
			return func(raw []byte, out *cptvframe.Frame, edge int) error {
				if cur == nil {
					return errors.New("no frame")
				}
				px := cur.Pix
				if second {
					px = cur.Pix2
				}
				for y := range px {
					for x := range px[y] {
						out.Pix[y][x] = uint16(px[y][x])
					}
				}
				return nil
			}
		}
		parser := mkParser(false)
		sink := &vsSink{enc: enc}
		tap := &vsTap{}
		sink.tap = tap
		clk := &vsClock{now: time.Unix(70000, 0)}
		var chain recorder.Recorder = sink
		if sc.Throttle != nil {
			minLen := sc.MinSecs + sc.PrevSecs
			if minLen < 1 {
				minLen = 1
			}
			tc := &config.ThermalThrottler{Activate: true, BucketSize: time.Duration(sc.Throttle.BucketS) * time.Second,
				MinRefill: time.Duration(sc.Throttle.K*minLen*sc.Fps) * time.Millisecond}
			chain = throttle.NewThrottledRecorderWithClock(sink, tc, minLen, nil, clk, cam)
		}
		tap.next = chain
		lis := &vsLis{}
		mp := NewMotionProcessor(parser, &mconf, rconf, &config.Location{}, lis, tap, cam, nil, new(recorder.NoWriteRecorder))
		sink.mp = mp
		paired := sc.Kind != ""
		var mp2 *MotionProcessor
		lis2 := &vsLis{}
		if paired {
			mp2 = NewMotionProcessor(mkParser(true), &mconf, rconf, &config.Location{}, lis2, vsQuiet{}, cam, nil, new(recorder.NoWriteRecorder))
		}
		enc.Encode(map[string]interface{}{"ev": "dcfg", "script": si, "w": c.W, "h": c.H, "edge": c.Edge, "T": c.T,
			"delta": c.Delta, "cnt": c.Cnt, "gap": c.Gap, "one": c.One, "warmer": c.Warmer, "dyn": c.Dyn,
			"tmin": c.Tmin, "tmax": c.Tmax, "preview": sc.PrevSecs * sc.Fps})
		timeOn := 100 * time.Second
		for i := range sc.Steps {
			st := &sc.Steps[i]
			if st.A == "reset" {
				sink.stopFail = st.StopFail
				n0 := sink.stops
				mp.Reset(cam)
				if paired {
					mp2.Reset(cam)
				}
				sink.stopFail = false
				enc.Encode(map[string]interface{}{"ev": "dreset", "while_recording": sink.stops > n0, "stop_failed": st.StopFail && sink.stops > n0})
				continue
			}
			timeOn += time.Second
			cur = st
			sink.frame = i
			// the parser above fills pixels; telemetry is set through a wrapper frame status
			f := mp.frameLoop.Current()
			f.Status = cptvframe.Telemetry{TimeOn: timeOn, LastFFCTime: timeOn - time.Duration(st.FfcAge)*time.Millisecond}
			if st.NeverFFC {
				f.Status = cptvframe.Telemetry{TimeOn: time.Duration(st.FfcAge) * time.Millisecond}
			}
			lis.motion = false
			mp.Process(nil)
			// the detector as the processor drives it (same event shape as TestVerifDetector)
			d := mp.motionDetector
			ev := map[string]interface{}{"ev": "dframe", "kind": sc.Kind, "pix": st.Pix, "aff": st.FfcAge < 10000, "motion": lis.motion,
				"thresh": int(d.tempThresh)}
			if c.Dyn {
				ev["bg"] = vPix(d.background)
			}
			if paired {
				f2 := mp2.frameLoop.Current()
				f2.Status = f.Status
				lis2.motion = false
				mp2.Process(nil)
				d2 := mp2.motionDetector
				ev["pix2"], ev["motion2"], ev["thresh2"] = st.Pix2, lis2.motion, int(d2.tempThresh)
				if c.Dyn {
					ev["bg2"] = vPix(d2.background)
				}
			}
			enc.Encode(ev)
			if sc.Throttle != nil {
				clk.now = clk.now.Add(time.Duration(sc.Throttle.FrameMs) * time.Millisecond)
			}
		}
	}
}
