//go:build verif

package motion

import (
	"encoding/json"
	"os"
	"testing"
	"time"

	config "github.com/TheCacophonyProject/go-config"
	"github.com/TheCacophonyProject/go-cptv/cptvframe"
	"github.com/TheCacophonyProject/thermal-recorder/recorder"
	"github.com/TheCacophonyProject/window"
)

// vlCount is a storage sink that only counts: the number of frames of every file it was given.
type vlCount struct {
	open bool
	n    int
	lens []int
}

func (c *vlCount) StartRecording(bg *cptvframe.Frame, th uint16) error {
	c.open, c.n = true, 0
	return nil
}
func (c *vlCount) StopRecording() error {
	if c.open {
		c.lens = append(c.lens, c.n)
	}
	c.open = false
	return nil
}
func (c *vlCount) WriteFrame(f *cptvframe.Frame) error {
	if c.open {
		c.n++
	}
	return nil
}
func (c *vlCount) CheckCanRecord() error { return nil }

// TestVerifLongFiles: very long recordings (max-secs*fps beyond 16 bits) through the real MotionProcessor with
// counting sinks: the lengths of the continuous files and of motion recordings under uninterrupted motion.
func TestVerifLongFiles(t *testing.T) {
	in, outp := os.Getenv("VERIF_SCRIPT"), os.Getenv("VERIF_OUT")
	if in == "" || outp == "" {
		t.Skip("driver only")
	}
	b, _ := os.ReadFile(in)
	var all struct {
		Scripts []struct {
			Fps     int  `json:"fps"`
			MinSecs int  `json:"min_secs"`
			MaxSecs int  `json:"max_secs"`
			Frames  int  `json:"frames"`
			Motion  bool `json:"motion"` // uninterrupted motion from frame 3 on
		} `json:"scripts"`
	}
	if err := json.Unmarshal(b, &all); err != nil {
		t.Fatal(err)
	}
	fo, _ := os.Create(outp)
	defer fo.Close()
	enc := json.NewEncoder(fo)
	for si, sc := range all.Scripts {
		cam := vCam{4, 3, sc.Fps}
		mconf := config.ThermalMotion{TempThresh: 100, DeltaThresh: 10, CountThresh: 1, FrameCompareGap: 1, UseOneDiffOnly: true,
			TriggerFrames: 1, EdgePixels: 0}
		w, _ := window.New("12:00", "12:00", 0, 0)
		rconf := &recorder.RecorderConfig{MinSecs: sc.MinSecs, MaxSecs: sc.MaxSecs, PreviewSecs: 0, Window: *w}
		k := 0
		parser := func(raw []byte, out *cptvframe.Frame, edge int) error {
			lvl := uint16(200)
			if sc.Motion && k >= 3 && k%2 == 1 {
				lvl = 300 // the scene toggles on every frame: motion on every frame
			}
			for y := range out.Pix {
				for x := range out.Pix[y] {
					out.Pix[y][x] = lvl
				}
			}
			out.Status = cptvframe.Telemetry{TimeOn: time.Duration(100+k) * time.Second, LastFFCTime: time.Second}
			return nil
		}
		msink, csink := &vlCount{lens: []int{}}, &vlCount{lens: []int{}}
		mp := NewMotionProcessor(parser, &mconf, rconf, &config.Location{}, nil, msink, cam, csink, new(recorder.NoWriteRecorder))
		for k = 0; k < sc.Frames; k++ {
			mp.Process(nil)
		}
		enc.Encode(map[string]interface{}{"ev": "longfiles", "script": si, "fps": sc.Fps, "min": sc.MinSecs, "max": sc.MaxSecs, "frames": sc.Frames,
			"motion": sc.Motion, "clens": csink.lens, "mlens": msink.lens})
	}
}
