//go:build verif

package motion

import (
	"time"

	"github.com/TheCacophonyProject/thermal-recorder/loglimiter"
)

// VerifSetLogInterval replaces the processor's log limiter by one with the given interval (harness only: with
// interval 0 nothing is suppressed, so the sequence of messages the processor ATTEMPTS to log becomes visible).
func VerifSetLogInterval(mp *MotionProcessor, d time.Duration) {
	mp.log = loglimiter.New(d)
}
