//go:build verif

package motion

import (
	"encoding/json"
	"os"
	"testing"
)

// TestVerifConsts reports package constants the properties name.
func TestVerifConsts(t *testing.T) {
	out := os.Getenv("VERIF_OUT")
	if out == "" {
		t.Skip("driver only")
	}
	f, err := os.Create(out)
	if err != nil {
		t.Fatal(err)
	}
	defer f.Close()
	enc := json.NewEncoder(f)
	enc.Encode(map[string]interface{}{"ev": "const", "name": "minLogInterval", "ms": int(minLogInterval.Milliseconds())})
	enc.Encode(map[string]interface{}{"ev": "constffc", "name": "ffcPeriod", "ms": int(ffcPeriod.Milliseconds())})
}
