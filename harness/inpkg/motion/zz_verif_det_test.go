//go:build verif

package motion

import (
	"bufio"
	"encoding/json"
	"fmt"
	"os"
	"testing"
	"time"

	config "github.com/TheCacophonyProject/go-config"
	"github.com/TheCacophonyProject/go-cptv/cptvframe"
)

type vCam struct{ x, y, f int }

func (c vCam) ResX() int { return c.x }
func (c vCam) ResY() int { return c.y }
func (c vCam) FPS() int  { return c.f }

type vDetCfg struct {
	W, H, Edge, T, Delta, Cnt, Gap int
	One, Warmer, Dyn               bool
	Tmin, Tmax, Preview            int
}
type vDetStep struct {
	A      string  `json:"a"`
	Pix    [][]int `json:"pix"`
	Pix2   [][]int `json:"pix2"`
	FfcAge int     `json:"ffcAge"` // ms since the last FFC
	// processor chain only: the storage StopRecording call made by this reset / frame fails
	StopFail bool `json:"stopFail"`
	// processor chain only: the recording window (10:00-14:00) is closed when this frame arrives
	Closed bool `json:"closed"`
	// the camera has not run a flat-field correction since power-on: LastFFCTime = 0 and TimeOn = ffcAge
	NeverFFC bool `json:"neverFfc"`
}
type vDetScript struct {
	Cfg   vDetCfg    `json:"cfg"`
	Kind  string     `json:"kind"` // "", "border", "cold", "history"
	Steps []vDetStep `json:"steps"`
}

func vPix(f *cptvframe.Frame) [][]int {
	out := make([][]int, len(f.Pix))
	for y, row := range f.Pix {
		out[y] = make([]int, len(row))
		for x, v := range row {
			out[y][x] = int(v)
		}
	}
	return out
}

// TestVerifDetector drives the real motionDetector (one instance, or two in
// lock-step for paired streams) and logs frames, results, background and
// threshold after every Detect.
func TestVerifDetector(t *testing.T) {
	in := os.Getenv("VERIF_SCRIPT")
	if in == "" {
		t.Skip("driver only")
	}
	b, err := os.ReadFile(in)
	if err != nil {
		t.Fatal(err)
	}
	var all struct {
		Scripts []vDetScript `json:"scripts"`
	}
	if err := json.Unmarshal(b, &all); err != nil {
		t.Fatal(err)
	}
	fo, err := os.Create(os.Getenv("VERIF_OUT"))
	if err != nil {
		t.Fatal(err)
	}
	defer fo.Close()
	bw := bufio.NewWriterSize(fo, 1<<20)
	defer bw.Flush()
	enc := json.NewEncoder(bw)
	for si, sc := range all.Scripts {
		func() {
			defer func() {
				if p := recover(); p != nil {
					enc.Encode(map[string]interface{}{"ev": "dpanic", "msg": fmt.Sprint(p)})
				}
			}()
			c := sc.Cfg
			cam := vCam{c.W, c.H, 9}
			conf := config.ThermalMotion{TempThresh: uint16(c.T), DeltaThresh: uint16(c.Delta), CountThresh: c.Cnt,
				FrameCompareGap: c.Gap, UseOneDiffOnly: c.One, WarmerOnly: c.Warmer, EdgePixels: c.Edge,
				DynamicThreshold: c.Dyn, TempThreshMin: uint16(c.Tmin), TempThreshMax: uint16(c.Tmax)}
			paired := sc.Kind != ""
			d1 := NewMotionDetector(conf, c.Preview, cam)
			var d2 *motionDetector
			if paired {
				d2 = NewMotionDetector(conf, c.Preview, cam)
			}
			enc.Encode(map[string]interface{}{"ev": "dcfg", "script": si, "w": c.W, "h": c.H, "edge": c.Edge, "T": c.T,
				"delta": c.Delta, "cnt": c.Cnt, "gap": c.Gap, "one": c.One, "warmer": c.Warmer, "dyn": c.Dyn,
				"tmin": c.Tmin, "tmax": c.Tmax, "preview": c.Preview})
			timeOn := 100 * time.Second
			f1, f2 := cptvframe.NewFrame(cam), cptvframe.NewFrame(cam)
			for _, st := range sc.Steps {
				if st.A == "reset" {
					d1.Reset(cam)
					if paired {
						d2.Reset(cam)
					}
					enc.Encode(map[string]interface{}{"ev": "dreset"})
					continue
				}
				timeOn += time.Second
				for y := range st.Pix {
					for x := range st.Pix[y] {
						f1.Pix[y][x] = uint16(st.Pix[y][x])
						if paired {
							f2.Pix[y][x] = uint16(st.Pix2[y][x])
						}
					}
				}
				f1.Status = cptvframe.Telemetry{TimeOn: timeOn, LastFFCTime: timeOn - time.Duration(st.FfcAge)*time.Millisecond}
				if st.NeverFFC {
					f1.Status = cptvframe.Telemetry{TimeOn: time.Duration(st.FfcAge) * time.Millisecond}
				}
				f2.Status = f1.Status
				m1 := d1.Detect(f1)
				ev := map[string]interface{}{"ev": "dframe", "kind": sc.Kind, "pix": st.Pix, "aff": st.FfcAge < 10000, "motion": m1,
					"thresh": int(d1.tempThresh)}
				if c.Dyn {
					ev["bg"] = vPix(d1.background)
				}
				if paired {
					m2 := d2.Detect(f2)
					ev["pix2"], ev["motion2"], ev["thresh2"] = st.Pix2, m2, int(d2.tempThresh)
					if c.Dyn {
						ev["bg2"] = vPix(d2.background)
					}
				}
				enc.Encode(ev)
			}
		}()
	}
}
