//go:build verif

package main

import (
	"bufio"
	"encoding/base64"
	"encoding/json"
	"math"
	"os"
	"testing"
	"time"

	"github.com/TheCacophonyProject/go-cptv/cptvframe"
	"github.com/TheCacophonyProject/lepton3"
)

// TestVerifRaw feeds raw frames to the parser the daemon selects for the given
// camera (frameParser) and logs what came back.
func TestVerifRaw(t *testing.T) {
	in, outp := os.Getenv("VERIF_SCRIPT"), os.Getenv("VERIF_OUT")
	if in == "" || outp == "" {
		t.Skip("driver only")
	}
	b, _ := os.ReadFile(in)
	var all struct {
		Scripts []struct {
			Fmt   string `json:"fmt"`
			Model string `json:"model"`
			W, H  int
			Edge  int    `json:"edge"`
			Bytes string `json:"bytes"`
		} `json:"scripts"`
	}
	if err := json.Unmarshal(b, &all); err != nil {
		t.Fatal(err)
	}
	fo, _ := os.Create(outp)
	defer fo.Close()
	bw := bufio.NewWriterSize(fo, 1<<20)
	defer bw.Flush()
	enc := json.NewEncoder(bw)
	for _, m := range []string{"lepton3", "lepton3.5", "boson"} {
		enc.Encode(map[string]interface{}{"ev": "parser", "model": m, "ok": frameParser("flir", m) != nil})
	}
	for si, sc := range all.Scripts {
		raw, _ := base64.StdEncoding.DecodeString(sc.Bytes)
		parse := frameParser("flir", sc.Model)
		if parse == nil {
			enc.Encode(map[string]interface{}{"ev": "parser", "model": sc.Model, "ok": false})
			continue
		}
		cam := vfCam{sc.W, sc.H, 9}
		f := cptvframe.NewFrame(cam)
		err := parse(raw, f, sc.Edge)
		_, isBad := err.(*lepton3.BadFrameErr)
		ints := make([]int, len(raw))
		for i, v := range raw {
			ints[i] = int(v)
		}
		ev := map[string]interface{}{"ev": "raw", "script": si, "fmt": sc.Fmt, "w": sc.W, "h": sc.H, "edge": sc.Edge, "bytes": ints,
			"bad": isBad, "othererr": err != nil && !isBad}
		if err == nil {
			ev["pix"] = vPixels(f)
			ev["timeon"] = int(f.Status.TimeOn / time.Millisecond)
			ev["lastffc"] = int(f.Status.LastFFCTime / time.Millisecond)
			ev["framecount"] = f.Status.FrameCount
			ev["framemean"] = int(f.Status.FrameMean)
			ev["tempck"] = int(math.Round(f.Status.TempC*100)) + 27315
			ev["lastffctempck"] = int(math.Round(f.Status.LastFFCTempC*100)) + 27315
		}
		enc.Encode(ev)
	}
}

func vPixels(f *cptvframe.Frame) [][]int {
	out := make([][]int, len(f.Pix))
	for y, row := range f.Pix {
		out[y] = make([]int, len(row))
		for x, v := range row {
			out[y][x] = int(v)
		}
	}
	return out
}
