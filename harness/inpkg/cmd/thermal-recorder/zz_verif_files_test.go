//go:build verif

package main

import (
	"bufio"
	"encoding/json"
	"fmt"
	"io"
	"log"
	"math/rand"
	"os"
	"path/filepath"
	"runtime"
	"sort"
	"strings"
	"testing"
	"time"

	goconfig "github.com/TheCacophonyProject/go-config"
	cptv "github.com/TheCacophonyProject/go-cptv"
	"github.com/TheCacophonyProject/go-cptv/cptvframe"
	"github.com/TheCacophonyProject/thermal-recorder/recorder"
	"github.com/TheCacophonyProject/window"
)

type vfCam struct{ x, y, f int }

func (c vfCam) ResX() int { return c.x }
func (c vfCam) ResY() int { return c.y }
func (c vfCam) FPS() int  { return c.f }

func vfConf(dir string) *Config {
	w, _ := window.New("12:00", "12:00", 0, 0)
	return &Config{DeviceName: "verif", DeviceID: 3, OutputDir: dir,
		Recorder: recorder.RecorderConfig{MinSecs: 1, MaxSecs: 2, PreviewSecs: 1, Window: *w},
		Motion:   goconfig.DefaultThermalMotion("lepton3")}
}

func vfKind(name string) string {
	switch {
	case strings.HasSuffix(name, ".cptv"):
		return "final"
	case strings.HasSuffix(name, ".cptv.temp"):
		return "temp"
	case strings.HasSuffix(name, ".cptv.temp.tmp"):
		return "scratch"
	}
	return "other"
}

// vfDecode fully decodes a CPTV file: header, then every frame up to EOF;
// ok only if the number of frames read equals the count in the header.
func vfDecode(path string) (frames int, ok bool, msg string) {
	defer func() {
		if p := recover(); p != nil {
			ok, msg = false, fmt.Sprint("panic: ", p)
		}
	}()
	fr, err := cptv.NewFileReader(path)
	if err != nil {
		return 0, false, err.Error()
	}
	defer fr.Close()
	f := fr.Reader.EmptyFrame()
	n := 0
	for {
		err := fr.ReadFrame(f)
		if err == io.EOF {
			break
		}
		if err != nil {
			return n, false, err.Error()
		}
		n++
	}
	if n != int(fr.NumFrames()) {
		return n, false, fmt.Sprintf("header says %d frames, %d decoded", fr.NumFrames(), n)
	}
	if n < 1 {
		return n, false, "no frames"
	}
	return n, true, ""
}

type vfEntry struct {
	Name    string `json:"name"`
	Kind    string `json:"kind"`
	Decodes bool   `json:"decodes"`
	Frames  int    `json:"frames"`
	Msg     string `json:"msg,omitempty"`
}

func vfListing(dir string) []vfEntry {
	out := []vfEntry{}
	ents, _ := os.ReadDir(dir)
	for _, e := range ents {
		if e.IsDir() {
			continue
		}
		en := vfEntry{Name: e.Name(), Kind: vfKind(e.Name())}
		if en.Kind == "final" {
			en.Frames, en.Decodes, en.Msg = vfDecode(filepath.Join(dir, e.Name()))
		}
		out = append(out, en)
	}
	sort.Slice(out, func(i, j int) bool { return out[i].Name < out[j].Name })
	return out
}

// TestVerifScenario (child process, usually under strace and killed): a fixed
// sequence of recordings on the real CPTVFileRecorder.  ops: s=start, w=frame,
// p=StopRecording, d=Stop() (discard).
func TestVerifScenario(t *testing.T) {
	dir := os.Getenv("VERIF_DIR")
	ops := os.Getenv("VERIF_OPS")
	if dir == "" || ops == "" {
		t.Skip("driver only")
	}
	runtime.LockOSThread()
	log.SetOutput(io.Discard)
	cam := vfCam{40, 30, 9}
	rec := NewCPTVFileRecorder(vfConf(dir), cam, "flir", "lepton3", 77, "1.2.3")
	// upper-case ops drive a second recorder on the same directory (handleConn gives the test-recording
	// recorder the same output directory as the motion recorder); 'z' sleeps 3 ms
	recB := NewCPTVFileRecorder(vfConf(dir), cam, "flir", "lepton3", 77, "1.2.3")
	rnd := rand.New(rand.NewSource(5))
	bg := cptvframe.NewFrame(cam)
	f := cptvframe.NewFrame(cam)
	occupied := []string{}
	os.Stderr.WriteString("VERIF-MARK begin\n")
	for _, op := range ops {
		switch op {
		case 'z':
			time.Sleep(3 * time.Millisecond)
		case 'x':
			// the names of the next milliseconds are taken (as by the other recorder of the same directory, whose
			// open recording has the temp name and whose finished one has the final name): the next start must
			// pick a free one
			now := time.Now()
			for k := 0; k < 14; k++ {
				n := filepath.Join(dir, now.Add(time.Duration(k)*time.Millisecond).Format("20060102.150405.000."+cptvTempExt))
				if k%2 == 1 {
					n = recordingFinalName(n)
				}
				if fileExists(n) || fileExists(recordingFinalName(n)) || fileExists(n+".tmp") {
					continue // a name of the scenario's own recordings
				}
				if fo, err := os.OpenFile(n, os.O_WRONLY|os.O_CREATE|os.O_EXCL, 0644); err == nil {
					fo.WriteString("in use " + n)
					fo.Close()
					occupied = append(occupied, n)
				}
			}
		case 'h':
			// a start that the CPTV writer rejects while writing the header (a device name beyond the format's 255-byte
			// string limit): StartRecording returns an error; whatever it leaves behind must not be called *.cptv
			hc := vfConf(dir)
			hc.DeviceName = strings.Repeat("n", 300)
			recH := NewCPTVFileRecorder(hc, cam, "flir", "lepton3", 77, "1.2.3")
			if err := recH.StartRecording(bg, 2950); err == nil {
				recH.WriteFrame(f)
				recH.StopRecording()
			}
			time.Sleep(2 * time.Millisecond)
		case 'S':
			if err := recB.StartRecording(bg, 2950); err != nil {
				t.Fatal(err)
			}
		case 'W':
			f.Status.TimeOn += 111 * time.Millisecond
			recB.WriteFrame(f)
		case 'P':
			recB.StopRecording()
			time.Sleep(2 * time.Millisecond)
		case 's':
			if err := rec.StartRecording(bg, 2950); err != nil {
				t.Fatal(err)
			}
		case 'w':
			for y := range f.Pix {
				for x := range f.Pix[y] {
					f.Pix[y][x] = uint16(3000 + rnd.Intn(4000))
				}
			}
			f.Status.TimeOn += 111 * time.Millisecond
			rec.WriteFrame(f)
		case 'p':
			rec.StopRecording()
			time.Sleep(2 * time.Millisecond) // distinct file names (1 ms resolution)
		case 'd':
			rec.Stop()
		}
	}
	os.Stderr.WriteString("VERIF-MARK end\n")
	if len(occupied) > 0 {
		reused := 0
		for _, n := range occupied {
			b, err := os.ReadFile(n)
			if err != nil || string(b) != "in use "+n {
				reused++
			}
			os.Remove(n)
		}
		os.WriteFile(dir+".occupied.json", []byte(fmt.Sprintf(`{"occupied": %d, "reused": %d}`, len(occupied), reused)), 0644)
	}
}

// TestVerifInspect: list VERIF_DIR (decoding every *.cptv), run the start-up
// clean-up the daemon runs (deleteTempFiles), list again.
func TestVerifInspect(t *testing.T) {
	dir := os.Getenv("VERIF_DIR")
	out := os.Getenv("VERIF_OUT")
	if dir == "" || out == "" {
		t.Skip("driver only")
	}
	before := vfListing(dir)
	err := deleteTempFiles(dir)
	after := vfListing(dir)
	b, _ := json.Marshal(map[string]interface{}{"before": before, "after": after, "cleanup_err": fmt.Sprint(err)})
	os.WriteFile(out, b, 0644)
}

// TestVerifCleanKinds measures which kinds of artefact deleteTempFiles removes.
func TestVerifCleanKinds(t *testing.T) {
	out := os.Getenv("VERIF_OUT")
	if out == "" {
		t.Skip("driver only")
	}
	dir := t.TempDir()
	names := map[string]string{"final": "20200101.000000.000.cptv", "temp": "20200101.000001.000.cptv.temp",
		"scratch": "20200101.000001.000.cptv.temp.tmp", "other": "notes.txt"}
	for _, n := range names {
		os.WriteFile(filepath.Join(dir, n), []byte("x"), 0644)
	}
	deleteTempFiles(dir)
	removed := []string{}
	for k, n := range names {
		if _, err := os.Stat(filepath.Join(dir, n)); err != nil {
			removed = append(removed, k)
		}
	}
	sort.Strings(removed)
	b, _ := json.Marshal(map[string]interface{}{"removed": removed})
	os.WriteFile(out, b, 0644)
}

// TestVerifObserver: recordings start and stop at full speed while a
// concurrent observer decodes every *.cptv it sees, immediately.
func TestVerifObserver(t *testing.T) {
	out := os.Getenv("VERIF_OUT")
	if out == "" {
		t.Skip("driver only")
	}
	log.SetOutput(io.Discard)
	dir := t.TempDir()
	cam := vfCam{40, 30, 9}
	rec := NewCPTVFileRecorder(vfConf(dir), cam, "flir", "lepton3", 77, "1.2.3")
	stop := make(chan struct{})
	done := make(chan []vfEntry)
	go func() {
		seen := map[string]bool{}
		var obs []vfEntry
		for {
			select {
			case <-stop:
				done <- obs
				return
			default:
			}
			ents, _ := os.ReadDir(dir)
			for _, e := range ents {
				if vfKind(e.Name()) == "final" && !seen[e.Name()] {
					seen[e.Name()] = true
					en := vfEntry{Name: e.Name(), Kind: "final"}
					en.Frames, en.Decodes, en.Msg = vfDecode(filepath.Join(dir, e.Name()))
					obs = append(obs, en)
				}
			}
		}
	}()
	n := 40
	fmt.Sscan(os.Getenv("VERIF_N"), &n)
	f := cptvframe.NewFrame(cam)
	rnd := rand.New(rand.NewSource(9))
	for i := 0; i < n; i++ {
		rec.StartRecording(cptvframe.NewFrame(cam), 3000)
		for k := 0; k < 1+rnd.Intn(12); k++ {
			for y := range f.Pix {
				for x := range f.Pix[y] {
					f.Pix[y][x] = uint16(3000 + rnd.Intn(3000))
				}
			}
			rec.WriteFrame(f)
		}
		if i%7 == 6 {
			rec.Stop()
		} else {
			rec.StopRecording()
		}
		time.Sleep(time.Millisecond)
	}
	time.Sleep(20 * time.Millisecond)
	close(stop)
	obs := <-done
	fo, _ := os.Create(out)
	defer fo.Close()
	bw := bufio.NewWriter(fo)
	defer bw.Flush()
	enc := json.NewEncoder(bw)
	for _, o := range obs {
		enc.Encode(map[string]interface{}{"ev": "observe", "name": o.Name, "decodes": o.Decodes, "frames": o.Frames, "msg": o.Msg})
	}
	enc.Encode(map[string]interface{}{"ev": "final-listing", "files": vfListing(dir), "recordings": n})
}
