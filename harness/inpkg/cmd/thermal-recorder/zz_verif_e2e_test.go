//go:build verif

package main

import (
	"bufio"
	"bytes"
	"encoding/base64"
	"encoding/binary"
	"encoding/json"
	"fmt"
	"io"
	"log"
	"net"
	"os"
	"path/filepath"
	"runtime"
	"sort"
	"strings"
	"sync"
	"sync/atomic"
	"syscall"
	"testing"
	"time"
	"unsafe"

	cptv "github.com/TheCacophonyProject/go-cptv"
	"github.com/TheCacophonyProject/thermal-recorder/motion"
	"github.com/godbus/dbus"
	yamlv1 "gopkg.in/yaml.v1"
)

// ---------------------------------------------------------------- fake system bus
type veBusCall struct {
	Dest   string `json:"dest"`
	Iface  string `json:"iface"`
	Member string `json:"member"`
	Args   string `json:"args"`
	AtMs   int64  `json:"at_ms"`
}

type veBus struct {
	mu      sync.Mutex
	calls   []veBusCall
	svc     net.Conn // the connection that owns the service name
	svcMu   sync.Mutex
	serial  uint32
	waiters map[uint32]chan *dbus.Message
	t0      time.Time
}

func (fb *veBus) serve(l net.Listener) {
	for {
		c, err := l.Accept()
		if err != nil {
			return
		}
		go fb.handle(c)
	}
}

func (fb *veBus) handle(c net.Conn) {
	r := bufio.NewReader(c)
	r.ReadByte() // leading NUL
	for {
		line, err := r.ReadString('\n')
		if err != nil {
			return
		}
		line = strings.TrimSpace(line)
		switch {
		case line == "AUTH":
			c.Write([]byte("REJECTED EXTERNAL\r\n"))
		case strings.HasPrefix(line, "AUTH EXTERNAL"):
			c.Write([]byte("OK 0123456789abcdef0123456789abcdef\r\n"))
		case line == "NEGOTIATE_UNIX_FD":
			c.Write([]byte("ERROR\r\n"))
		case line == "BEGIN":
			fb.messages(c, r)
			return
		default:
			c.Write([]byte("ERROR\r\n"))
		}
	}
}

func hdrStr(m *dbus.Message, f dbus.HeaderField) string {
	if v, ok := m.Headers[f]; ok {
		switch x := v.Value().(type) {
		case string:
			return x
		case dbus.ObjectPath:
			return string(x)
		}
	}
	return ""
}

func (fb *veBus) messages(c net.Conn, r *bufio.Reader) {
	var wmu sync.Mutex
	for {
		msg, err := dbus.DecodeMessage(r)
		if err != nil {
			return
		}
		switch msg.Type {
		case dbus.TypeMethodReply, dbus.TypeError:
			if v, ok := msg.Headers[dbus.FieldReplySerial]; ok {
				fb.mu.Lock()
				ch := fb.waiters[v.Value().(uint32)]
				delete(fb.waiters, v.Value().(uint32))
				fb.mu.Unlock()
				if ch != nil {
					ch <- msg
				}
			}
			continue
		case dbus.TypeMethodCall:
		default:
			continue
		}
		bc := veBusCall{Dest: hdrStr(msg, dbus.FieldDestination), Iface: hdrStr(msg, dbus.FieldInterface),
			Member: hdrStr(msg, dbus.FieldMember), AtMs: time.Since(fb.t0).Milliseconds()}
		args := fmt.Sprint(msg.Body...)
		if len(args) > 200 {
			args = args[:200]
		}
		bc.Args = args
		fb.mu.Lock()
		fb.calls = append(fb.calls, bc)
		fb.mu.Unlock()
		reply := new(dbus.Message)
		reply.Type = dbus.TypeMethodReply
		reply.Headers = map[dbus.HeaderField]dbus.Variant{
			dbus.FieldReplySerial: dbus.MakeVariant(msg.Serial()),
			dbus.FieldDestination: dbus.MakeVariant(":1.1"),
			dbus.FieldSender:      dbus.MakeVariant("org.freedesktop.DBus"),
		}
		switch bc.Member {
		case "Hello":
			reply.Body = []interface{}{":1.1"}
			reply.Headers[dbus.FieldSignature] = dbus.MakeVariant(dbus.SignatureOf(":1.1"))
		case "RequestName":
			reply.Body = []interface{}{uint32(1)}
			reply.Headers[dbus.FieldSignature] = dbus.MakeVariant(dbus.SignatureOf(uint32(1)))
			fb.svcMu.Lock()
			fb.svc = c
			fb.svcMu.Unlock()
		}
		if msg.Flags&dbus.FlagNoReplyExpected != 0 {
			continue
		}
		var buf bytes.Buffer
		reply.EncodeTo(&buf, binary.LittleEndian)
		b := buf.Bytes()
		fb.mu.Lock()
		fb.serial++
		binary.LittleEndian.PutUint32(b[8:12], 100000+fb.serial)
		fb.mu.Unlock()
		wmu.Lock()
		c.Write(b)
		wmu.Unlock()
	}
}

// call injects a method call into the daemon's exported service and waits for the reply.
func (fb *veBus) call(member string, args ...interface{}) (*dbus.Message, error) {
	fb.svcMu.Lock()
	c := fb.svc
	fb.svcMu.Unlock()
	if c == nil {
		return nil, fmt.Errorf("service not registered")
	}
	msg := new(dbus.Message)
	msg.Type = dbus.TypeMethodCall
	msg.Headers = map[dbus.HeaderField]dbus.Variant{
		dbus.FieldPath:        dbus.MakeVariant(dbus.ObjectPath(dbusPath)),
		dbus.FieldInterface:   dbus.MakeVariant(dbusName),
		dbus.FieldMember:      dbus.MakeVariant(member),
		dbus.FieldDestination: dbus.MakeVariant(dbusName),
		dbus.FieldSender:      dbus.MakeVariant(":1.99"),
	}
	if len(args) > 0 {
		msg.Body = args
		msg.Headers[dbus.FieldSignature] = dbus.MakeVariant(dbus.SignatureOf(args...))
	}
	var buf bytes.Buffer
	if err := msg.EncodeTo(&buf, binary.LittleEndian); err != nil {
		return nil, err
	}
	b := buf.Bytes()
	ch := make(chan *dbus.Message, 1)
	fb.mu.Lock()
	fb.serial++
	ser := 500000 + fb.serial
	binary.LittleEndian.PutUint32(b[8:12], ser)
	fb.waiters[ser] = ch
	fb.mu.Unlock()
	fb.svcMu.Lock()
	_, err := c.Write(b)
	fb.svcMu.Unlock()
	if err != nil {
		return nil, err
	}
	select {
	case m := <-ch:
		return m, nil
	case <-time.After(5 * time.Second):
		return nil, fmt.Errorf("timeout waiting for reply to %s", member)
	}
}

// ---------------------------------------------------------------- scenario
type veDbusReq struct {
	AtByte   int    `json:"at_byte"` // issue when this many payload bytes have been written
	Member   string `json:"member"`
	IntArg   *int   `json:"intarg"`
	Count    int    `json:"count"`
	Parallel int    `json:"parallel"`
	Bg       bool   `json:"bg"`     // keep running across the end of this connection (covers the reconnect window)
	Sync     bool   `json:"sync"`   // serve the request inline, between two frames (exact frame count)
	GapUs    int    `json:"gap_us"` // pause between two calls of one goroutine
}
type veConn struct {
	Header    map[string]interface{} `json:"header"`
	RawHeader string                 `json:"rawheader"`  // base64; used instead of header when set
	Payload   string                 `json:"payload"`    // base64 bytes after the header
	Cuts      []int                  `json:"cuts"`       // write sizes, cycled
	PauseMs   int                    `json:"pause_ms"`   // pause after each write
	PaceBytes int                    `json:"pace_bytes"` // after every pace_bytes payload bytes sleep pace_ms
	PaceAt    []int                  `json:"pace_at"`    // payload offsets at which an item (frame / marker) ends
	PaceVals  []int                  `json:"pace_vals"`  // value carried by the frame ending at pace_at[i] (0: not a frame)
	Procs     int                    `json:"gomaxprocs"`
	PaceMs    int                    `json:"pace_ms"`
	Dbus      []veDbusReq            `json:"dbus"`
	SettleMs  int                    `json:"settle_ms"`
	NoClose   bool                   `json:"noclose"`
	HeaderCut int                    `json:"header_cut"`  // >0: send only this many header bytes, then close
	PreDbus   []string               `json:"pre_dbus"`    // service methods called before this connection is dialled
	RmTempsAt []int                  `json:"rm_temps_at"` // payload offsets at which every *.cptv.temp in the output directory is unlinked
}
type veScenario struct {
	Config   string   `json:"config"`
	Prefiles []string `json:"prefiles"`
	Conns    []veConn `json:"conns"`
	SnapWait int      `json:"snapwait_ms"`
	// Rewrites: after the connections, config.toml is replaced by each of these in turn (the daemon watches it)
	Rewrites []struct {
		Toml   string `json:"toml"`
		WaitMs int    `json:"wait_ms"`
	} `json:"rewrites"`
}

func veFileInfo(path string) map[string]interface{} {
	out := map[string]interface{}{"name": filepath.Base(path), "kind": vfKind(path)}
	if vfKind(path) != "final" {
		return out
	}
	defer func() {
		if p := recover(); p != nil {
			out["decodes"] = false
			out["err"] = fmt.Sprint(p)
		}
	}()
	fr, err := cptv.NewFileReader(path)
	if err != nil {
		out["decodes"] = false
		out["err"] = err.Error()
		return out
	}
	defer fr.Close()
	r := fr.Reader
	ids := []int{}
	uniform := true
	f := r.EmptyFrame()
	n := 0
	var firstBg bool
	for {
		err := r.ReadFrame(f)
		if err == io.EOF {
			break
		}
		if err != nil {
			out["decodes"] = false
			out["err"] = err.Error()
			return out
		}
		if n == 0 {
			firstBg = f.Status.BackgroundFrame
		}
		if !f.Status.BackgroundFrame {
			ids = append(ids, int(f.Pix[0][0]))
		}
		n++
	}
	out["decodes"] = n == int(r.NumFrames())
	out["frames"] = len(ids)
	out["ids"] = ids
	out["firstbg"] = firstBg
	out["uniform"] = uniform
	out["header"] = map[string]interface{}{"device": r.DeviceName(), "deviceid": r.DeviceID(), "brand": r.BrandName(),
		"model": r.ModelName(), "serial": r.SerialNumber(), "firmware": r.FirmwareVersion(), "resx": r.ResX(), "resy": r.ResY(),
		"fps": r.FPS(), "preview": r.PreviewSecs(), "motion": r.MotionConfig(),
		"lat": f32s(r.Latitude()), "long": f32s(r.Longitude()), "alt": f32s(r.Altitude()), "acc": f32s(r.Accuracy())}
	return out
}

func veList(dir string) []map[string]interface{} {
	out := []map[string]interface{}{}
	ents, _ := os.ReadDir(dir)
	names := []string{}
	for _, e := range ents {
		if !e.IsDir() {
			names = append(names, e.Name())
		}
	}
	sort.Strings(names)
	for _, n := range names {
		out = append(out, veFileInfo(filepath.Join(dir, n)))
	}
	return out
}

type syncBuf struct {
	mu sync.Mutex
	b  bytes.Buffer
}

func (s *syncBuf) Write(p []byte) (int, error) { s.mu.Lock(); defer s.mu.Unlock(); return s.b.Write(p) }
func (s *syncBuf) String() string              { s.mu.Lock(); defer s.mu.Unlock(); return s.b.String() }

// TestVerifE2E runs the unmodified runMain() of the daemon against a fake
// system bus, a generated config.toml and scripted camera connections.
func TestVerifE2E(t *testing.T) {
	scenPath, outp := os.Getenv("VERIF_SCEN"), os.Getenv("VERIF_OUT")
	if scenPath == "" || outp == "" {
		t.Skip("driver only")
	}
	b, err := os.ReadFile(scenPath)
	if err != nil {
		t.Fatal(err)
	}
	var sc veScenario
	if err := json.Unmarshal(b, &sc); err != nil {
		t.Fatal(err)
	}
	dir, _ := os.MkdirTemp("", "verif-e2e-")
	defer os.RemoveAll(dir)
	busSock := filepath.Join(dir, "bus.sock")
	l, err := net.Listen("unix", busSock)
	if err != nil {
		t.Fatal(err)
	}
	fb := &veBus{waiters: map[uint32]chan *dbus.Message{}, t0: time.Now()}
	go fb.serve(l)
	os.Setenv("DBUS_SYSTEM_BUS_ADDRESS", busSock)
	out := filepath.Join(dir, "out")
	os.Mkdir(out, 0755)
	frames := filepath.Join(dir, "frames.sock")
	cfg := strings.ReplaceAll(strings.ReplaceAll(sc.Config, "{OUT}", out), "{SOCK}", frames)
	os.WriteFile(filepath.Join(dir, "config.toml"), []byte(cfg), 0644)
	for _, p := range sc.Prefiles {
		os.WriteFile(filepath.Join(out, p), []byte("leftover"), 0644)
	}
	fo, _ := os.Create(outp)
	defer fo.Close()
	enc := json.NewEncoder(fo)
	lb := &syncBuf{}
	log.SetOutput(lb)
	os.Args = []string{"thermal-recorder", "-c", dir}
	mainErr := make(chan error, 1)
	go func() { mainErr <- runMain() }()
	dial := func() (net.Conn, error) {
		var conn net.Conn
		var err error
		for i := 0; i < 200; i++ {
			conn, err = net.Dial("unix", frames)
			if err == nil {
				return conn, nil
			}
			select {
			case e := <-mainErr:
				return nil, fmt.Errorf("runMain returned: %v", e)
			default:
			}
			time.Sleep(20 * time.Millisecond)
		}
		return nil, err
	}
	var replyMu sync.Mutex
	// watchdog: the scenario makes progress (bytes written, requests answered) or the daemon has stalled
	var lastProgress int64 = time.Now().UnixNano()
	progress := func() { atomic.StoreInt64(&lastProgress, time.Now().UnixNano()) }
	go func() {
		for {
			time.Sleep(time.Second)
			if time.Since(time.Unix(0, atomic.LoadInt64(&lastProgress))) > 60*time.Second {
				buf := make([]byte, 1<<15)
				n := runtime.Stack(buf, true)
				replyMu.Lock()
				enc.Encode(map[string]interface{}{"ev": "e2e-stall", "conn": -1, "sent": -1, "why": "no progress for 60 s (a service request or the frame loop is stuck)",
					"log": tailStr(lb.String(), 800) + "\n" + tailStr(string(buf[:n]), 2500)})
				os.Exit(4)
			}
		}
	}()
	var doneVal int64 // value of the latest frame that has certainly been processed on the current connection
	var bgWg sync.WaitGroup
	defer bgWg.Wait()
	var connOfMu sync.Mutex
	connOf := map[interface{}]int{} // which connection a MotionProcessor object belongs to
	for ci, cn := range sc.Conns {
		ci, cn := ci, cn
		atomic.StoreInt64(&doneVal, 0)
		if cn.Procs > 0 {
			runtime.GOMAXPROCS(cn.Procs)
		}
		for _, member := range cn.PreDbus {
			svc := &service{}
			res := ""
			switch member {
			case "CameraInfo":
				if _, derr := svc.CameraInfo(); derr != nil {
					res = fmt.Sprint(derr.Name)
				}
			case "TakeSnapshot":
				if _, derr := svc.TakeSnapshot(-1); derr != nil {
					res = fmt.Sprint(derr.Name)
				}
			case "TakeTestRecording":
				if derr := svc.TakeTestRecording(); derr != nil {
					res = fmt.Sprint(derr.Name)
				}
			}
			enc.Encode(map[string]interface{}{"ev": "e2e-predbus", "conn": ci, "member": member, "err": res})
		}
		tDial := time.Now()
		conn, err := dial()
		if err != nil {
			enc.Encode(map[string]interface{}{"ev": "e2e-error", "err": err.Error(), "log": lb.String()})
			return
		}
		if ci == 0 {
			// what the start-up clean-up left, before any recording is made
			enc.Encode(map[string]interface{}{"ev": "e2e-startup", "files": veList(out)})
		}
		var hdr []byte
		if cn.RawHeader != "" {
			hdr, _ = base64.StdEncoding.DecodeString(cn.RawHeader)
		} else {
			for k, v := range cn.Header { // JSON numbers arrive as float64; the camera daemon sends ints
				if f, ok := v.(float64); ok && f == float64(int64(f)) {
					cn.Header[k] = int(f)
				}
			}
			hdr, _ = yamlv1.Marshal(cn.Header) // the encoder leptond uses
			hdr = append(hdr, '\n')
		}
		replyMu.Lock()
		enc.Encode(map[string]interface{}{"ev": "e2e-header", "conn": ci, "text": string(hdr)})
		replyMu.Unlock()
		if cn.HeaderCut > 0 {
			if cn.HeaderCut < len(hdr) {
				hdr = hdr[:cn.HeaderCut]
			}
			conn.Write(hdr)
			time.Sleep(50 * time.Millisecond)
			conn.Close()
			time.Sleep(time.Duration(cn.SettleMs+50) * time.Millisecond)
			enc.Encode(map[string]interface{}{"ev": "e2e-headercut", "conn": ci, "sent": len(hdr),
				"ended": strings.Count(lb.String(), "camera connection ended with"), "reading": strings.Count(lb.String(), "reading frames")})
			continue
		}
		payload, _ := base64.StdEncoding.DecodeString(cn.Payload)
		stream := append(append([]byte{}, hdr...), payload...)
		var wg sync.WaitGroup
		pos, k, paced := 0, 0, 0
		undrained := 0 // consecutive items the daemon did not read within 2 s each
		nextReq := 0
		sort.Slice(cn.Dbus, func(i, j int) bool { return cn.Dbus[i].AtByte < cn.Dbus[j].AtByte })
		fire := func(rq veDbusReq) {
			par := rq.Parallel
			if par < 1 {
				par = 1
			}
			for p := 0; p < par; p++ {
				w := &wg
				if rq.Bg {
					w = &bgWg
				}
				w.Add(1)
				run := func(f func()) { go f() }
				if rq.Sync {
					run = func(f func()) { f() }
				}
				run(func() {
					defer w.Done()
					cnt := rq.Count
					if cnt < 1 {
						cnt = 1
					}
					for i := 0; i < cnt; i++ {
						if rq.GapUs > 0 {
							time.Sleep(time.Duration(rq.GapUs) * time.Microsecond)
						}
						// The exported service methods are invoked the way godbus invokes them: on a
						// goroutine of their own, concurrently with the frame loop.
						svc := &service{}
						// observation for the freshness clause: how many frames had completed on the processor
						// that is current when the request starts, and whether it is still current afterwards
						// (only for TakeSnapshot: taking the daemon's mutex around other requests would order them with
						// the frame loop and hide a missing lock from the race detector)
						observe := rq.Member == "TakeSnapshot"
						var p0 *motion.MotionProcessor
						var cnt uint32
						if observe {
							mu.Lock()
							p0 = processor
							if p0 != nil {
								cnt = p0.CurrentFrame
							}
							mu.Unlock()
						}
						ev := map[string]interface{}{"ev": "e2e-dbus", "conn": ci, "member": rq.Member, "cnt": int(cnt)}

						switch rq.Member {
						case "TakeSnapshot":
							arg := -1
							if rq.IntArg != nil {
								arg = *rq.IntArg
							}
							f, derr := svc.TakeSnapshot(arg)
							if derr != nil {
								ev["dbuserr"] = fmt.Sprint(derr.Name, derr.Body)
							} else if f == nil {
								ev["reply"] = map[string]interface{}{"nil": true}
							} else {
								vals := map[uint16]int{}
								for _, r := range f.Pix {
									for _, p := range r {
										vals[p]++
									}
								}
								ks := []int{}
								for k := range vals {
									ks = append(ks, int(k))
								}
								sort.Ints(ks)
								ev["reply"] = map[string]interface{}{"rows": len(f.Pix), "values": ks, "framecount": f.Status.FrameCount}
							}
						case "TakeTestRecording":
							if derr := svc.TakeTestRecording(); derr != nil {
								ev["dbuserr"] = fmt.Sprint(derr.Name, derr.Body)
							} else {
								ev["reply"] = map[string]interface{}{"ok": true}
							}
						case "CameraInfo":
							m, derr := svc.CameraInfo()
							if derr != nil {
								ev["dbuserr"] = fmt.Sprint(derr.Name, derr.Body)
							} else {
								mm := map[string]string{}
								for k, x := range m {
									mm[k] = fmt.Sprint(x)
								}
								ev["reply"] = map[string]interface{}{"map": mm}
							}
						}
						if observe {
							mu.Lock()
							ev["same"] = processor == p0
							mu.Unlock()
						} else {
							ev["same"] = true
						}
						connOfMu.Lock()
						if c, ok := connOf[p0]; ok {
							ev["pconn"] = c
						} else {
							ev["pconn"] = -1
						}
						connOfMu.Unlock()
						replyMu.Lock()
						enc.Encode(ev)
						replyMu.Unlock()
						progress()
					}
				})
			}
		}
		for pos < len(stream) {
			if undrained >= 10 {
				// the daemon stopped reading the frame socket: report and give up (nothing more can be learnt)
				replyMu.Lock()
				enc.Encode(map[string]interface{}{"ev": "e2e-stall", "conn": ci, "sent": pos, "log": tailStr(lb.String(), 1500)})
				replyMu.Unlock()
				os.Exit(4)
			}
			n := len(stream) - pos
			if len(cn.Cuts) > 0 {
				c := cn.Cuts[k%len(cn.Cuts)]
				k++
				if c > 0 && c < n {
					n = c
				}
			}
			if len(cn.PaceAt) > 0 {
				// a write may complete at most one item, so two frames are never delivered together
				i := sort.SearchInts(cn.PaceAt, pos-len(hdr)+1)
				if i+1 < len(cn.PaceAt) {
					if lim := len(hdr) + cn.PaceAt[i+1] - 1 - pos; lim >= 1 && n > lim {
						n = lim
					}
				}
			}
			for nextReq < len(cn.Dbus) && cn.Dbus[nextReq].AtByte <= pos-len(hdr) {
				fire(cn.Dbus[nextReq])
				nextReq++
			}
			for len(cn.RmTempsAt) > 0 && cn.RmTempsAt[0] <= pos-len(hdr) {
				cn.RmTempsAt = cn.RmTempsAt[1:]
				veDrain(conn)
				time.Sleep(10 * time.Millisecond)
				tmps, _ := filepath.Glob(filepath.Join(out, "*.cptv.temp"))
				for _, tp := range tmps {
					os.Remove(tp)
				}
				replyMu.Lock()
				enc.Encode(map[string]interface{}{"ev": "e2e-rmtemps", "conn": ci, "removed": len(tmps)})
				replyMu.Unlock()
			}
			if _, err := conn.Write(stream[pos : pos+n]); err != nil {
				break
			}
			progress()
			pos += n
			if len(cn.PaceAt) > 0 {
				for paced < len(cn.PaceAt) && cn.PaceAt[paced] <= pos-len(hdr) {
					paced++
					if veDrain(conn) {
						undrained = 0
					} else {
						undrained++
					}
					time.Sleep(time.Duration(cn.PaceMs) * time.Millisecond)
					if paced-1 < len(cn.PaceVals) && cn.PaceVals[paced-1] > 0 {
						atomic.StoreInt64(&doneVal, int64(cn.PaceVals[paced-1]))
						mu.Lock()
						p := processor
						mu.Unlock()
						connOfMu.Lock()
						if _, ok := connOf[p]; !ok && p != nil {
							connOf[p] = ci
						}
						connOfMu.Unlock()
					}
				}
			} else if cn.PaceBytes > 0 && pos > len(hdr) {
				for paced+cn.PaceBytes <= pos-len(hdr) {
					paced += cn.PaceBytes
					veDrain(conn)                                           // the daemon has read everything sent so far ...
					time.Sleep(time.Duration(cn.PaceMs) * time.Millisecond) // ... and had time to process it
				}
			}
			if cn.PauseMs > 0 {
				time.Sleep(time.Duration(cn.PauseMs) * time.Millisecond)
			}
		}
		for nextReq < len(cn.Dbus) {
			fire(cn.Dbus[nextReq])
			nextReq++
		}
		wg.Wait()
		time.Sleep(time.Duration(cn.SettleMs+100) * time.Millisecond)
		streamMs := time.Since(tDial).Milliseconds() // upper bound of the connection's processing time so far
		if !cn.NoClose {
			conn.Close()
			time.Sleep(150 * time.Millisecond)
		}
		replyMu.Lock()
		enc.Encode(map[string]interface{}{"ev": "e2e-conn-done", "conn": ci, "stream_ms": streamMs, "files": veList(out),
			"constant": veList(filepath.Join(out, "constant-recordings"))})
		replyMu.Unlock()
	}
	for k, rw := range sc.Rewrites {
		before := lb.String()
		txt := strings.ReplaceAll(strings.ReplaceAll(rw.Toml, "{OUT}", out), "{SOCK}", frames)
		os.WriteFile(filepath.Join(dir, "config.toml"), []byte(txt), 0644)
		time.Sleep(time.Duration(rw.WaitMs) * time.Millisecond)
		// still here: the daemon did not exit for this change (os.Exit ends the whole test process)
		now := lb.String()[len(before):]
		enc.Encode(map[string]interface{}{"ev": "e2e-rewrite", "k": k, "alive": true,
			"nochange": strings.Count(now, "No relevant changes detected"), "errors": strings.Count(now, "error reloading config")})
	}
	fb.mu.Lock()
	calls := append([]veBusCall{}, fb.calls...)
	fb.mu.Unlock()
	logtxt := lb.String()
	enc.Encode(map[string]interface{}{"ev": "e2e-end", "bus": calls,
		"clears": strings.Count(logtxt, "clearing motion buffer"), "badframes": strings.Count(logtxt, "bad frame detec"),
		"ended": strings.Count(logtxt, "camera connection ended with"), "lifecycle": veLifecycle(logtxt), "logtail": tailStr(logtxt, 1500+len(os.Getenv("VERIF_FULLLOG"))*100000)})
}

// veLifecycle: the daemon's own lifecycle lines, in the order it printed them (trace for LifecycleTrace.tla).
func veLifecycle(logtxt string) []string {
	out := []string{}
	for _, ln := range strings.Split(logtxt, "\n") {
		switch {
		case strings.Contains(ln, "waiting for camera connection"):
			out = append(out, "listen")
		case strings.Contains(ln, "connection from ") && strings.HasSuffix(ln, "fps)"):
			if i := strings.LastIndex(ln, "@"); i >= 0 {
				out = append(out, "header:"+strings.TrimSuffix(ln[i+1:], "fps)"))
			}
		case strings.Contains(ln, "reading frames"):
			out = append(out, "reading")
		case strings.Contains(ln, "clearing motion buffer"):
			out = append(out, "clear")
		case strings.HasSuffix(ln, " frames for this connection"):
			f := strings.Fields(strings.TrimSuffix(ln, " frames for this connection"))
			if len(f) > 0 {
				out = append(out, "count:"+f[len(f)-1])
			}
		case strings.Contains(ln, "camera connection ended with"):
			out = append(out, "end")
		}
	}
	return out
}

// veDrain waits until the peer has consumed everything written to the unix
// socket (SIOCOUTQ = 0), so that frames are never processed back to back
// within one millisecond (the daemon's file names have 1 ms resolution).
func veDrain(c net.Conn) bool {
	uc, ok := c.(*net.UnixConn)
	if !ok {
		return true
	}
	rc, err := uc.SyscallConn()
	if err != nil {
		return true
	}
	for i := 0; i < 4000; i++ {
		n := -1
		rc.Control(func(fd uintptr) {
			var v int32
			_, _, e := syscall.Syscall(syscall.SYS_IOCTL, fd, 0x5411, uintptr(unsafe.Pointer(&v)))
			if e == 0 {
				n = int(v)
			}
		})
		if n <= 0 {
			return true
		}
		time.Sleep(500 * time.Microsecond)
	}
	return false // 2 s and the daemon has not taken what was sent
}

func tailStr(s string, n int) string {
	if len(s) > n {
		return s[len(s)-n:]
	}
	return s
}

// veReply summarises a reply body; for TakeSnapshot: resolution, whether all
// pixels carry one value, that value and the frame counter.
func veReply(m *dbus.Message) map[string]interface{} {
	out := map[string]interface{}{"nbody": len(m.Body)}
	if len(m.Body) == 0 {
		return out
	}
	switch v := m.Body[0].(type) {
	case []interface{}: // struct (Pix [][]uint16, Status ...)
		if len(v) >= 1 {
			if rows, ok := v[0].([][]uint16); ok {
				vals := map[uint16]int{}
				for _, r := range rows {
					for _, p := range r {
						vals[p]++
					}
				}
				ks := []int{}
				for k := range vals {
					ks = append(ks, int(k))
				}
				sort.Ints(ks)
				out["rows"] = len(rows)
				out["values"] = ks
			}
			if len(v) >= 2 {
				if st, ok := v[1].([]interface{}); ok && len(st) >= 3 {
					out["framecount"] = fmt.Sprint(st[2])
				}
			}
		}
	case map[string]dbus.Variant:
		mm := map[string]string{}
		for k, x := range v {
			mm[k] = fmt.Sprint(x.Value())
		}
		out["map"] = mm
	default:
		out["value"] = fmt.Sprint(v)
	}
	return out
}
