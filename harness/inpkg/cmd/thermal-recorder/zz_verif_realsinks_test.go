//go:build verif

package main

import (
	"encoding/json"
	"fmt"
	"io"
	"log"
	"os"
	"path/filepath"
	"sort"
	"testing"
	"time"

	"bytes"
	goconfig "github.com/TheCacophonyProject/go-config"
	"github.com/TheCacophonyProject/lepton3"
	"github.com/TheCacophonyProject/thermal-recorder/motion"
	"github.com/TheCacophonyProject/thermal-recorder/recorder"
	"github.com/TheCacophonyProject/window"
	"os/signal"
	"syscall"
)

type rsStep struct {
	A      string `json:"a"` // frame | bad | reset | snapreq | breakdir | fixdir
	Motion bool   `json:"motion"`
}
type rsScript struct {
	Fps, Preview, Trig, Min, Max int
	Const                        bool     `json:"const"`
	Steps                        []rsStep `json:"steps"`
}

func rsLepton(w, h, id, level int, tms uint32, zero bool) []byte {
	raw := make([]byte, 640+2*w*h)
	raw[2], raw[3], raw[4], raw[5] = byte(tms>>8), byte(tms), byte(tms>>24), byte(tms>>16)
	for k := 0; k < w*h; k++ {
		raw[640+2*k], raw[641+2*k] = byte(level>>8), byte(level)
	}
	raw[640], raw[641] = byte(id>>8), byte(id)
	if zero {
		raw[640+2*3], raw[641+2*3] = 0, 0
	}
	return raw
}

// TestVerifRealSinks: the real MotionProcessor with REAL CPTVFileRecorders on all three sinks while the output
// directory is taken away and put back (start, rename and pruning failures come from the file system).
func TestVerifRealSinks(t *testing.T) {
	in, outp := os.Getenv("VERIF_SCRIPT"), os.Getenv("VERIF_OUT")
	if in == "" || outp == "" {
		t.Skip("driver only")
	}
	log.SetOutput(io.Discard)
	b, _ := os.ReadFile(in)
	var all struct {
		Scripts []rsScript `json:"scripts"`
	}
	if err := json.Unmarshal(b, &all); err != nil {
		t.Fatal(err)
	}
	// results are collected in memory and written at the end: with VERIF_FSLIMIT the process itself runs under a
	// file-size limit during "fillfs" stretches
	bw := &bytes.Buffer{}
	defer func() { os.WriteFile(outp, bw.Bytes(), 0644) }()
	enc := json.NewEncoder(bw)
	fsLimit := os.Getenv("VERIF_FSLIMIT") != ""
	var unlimited syscall.Rlimit
	if fsLimit {
		// without a mountable file system: RLIMIT_FSIZE makes every write beyond a few hundred bytes fail (EFBIG)
		syscall.Getrlimit(syscall.RLIMIT_FSIZE, &unlimited)
		signal.Ignore(syscall.SIGXFSZ)
		defer syscall.Setrlimit(syscall.RLIMIT_FSIZE, &unlimited)
	}
	for si, sc := range all.Scripts {
		base := t.TempDir()
		if small := os.Getenv("VERIF_SMALLFS"); small != "" {
			// the output directory lives on a file system of a few MB mounted by the harness; "fillfs" / "freefs" steps
			// take all of its free space away and give it back (ENOSPC on whatever the recorders do in between)
			if old, _ := filepath.Glob(filepath.Join(small, "s*")); len(old) > 0 {
				for _, o := range old { // the file system is tiny: nothing of the earlier scripts may stay on it
					os.RemoveAll(o)
				}
			}
			base = filepath.Join(small, fmt.Sprintf("s%d", si))
			os.MkdirAll(base, 0755)
		}
		dir := filepath.Join(base, "out")
		os.Mkdir(dir, 0755)
		w, _ := window.New("12:00", "12:00", 0, 0)
		conf := &Config{DeviceName: "verif", DeviceID: 3, OutputDir: dir,
			Recorder: recorder.RecorderConfig{MinSecs: sc.Min, MaxSecs: sc.Max, PreviewSecs: sc.Preview, Window: *w, ConstantRecorder: sc.Const},
			Motion: goconfig.ThermalMotion{TempThresh: 100, DeltaThresh: 10, CountThresh: 1, FrameCompareGap: 1, UseOneDiffOnly: true,
				TriggerFrames: sc.Trig}}
		cam := vfCam{4, 3, sc.Fps}
		mrec := NewCPTVFileRecorder(conf, cam, "flir", "lepton3", 1, "1.0.0")
		var crec *CPTVFileRecorder
		if sc.Const {
			crec = NewCPTVFileRecorder(conf, cam, "flir", "lepton3", 1, "1.0.0")
			crec.SetAsConstantRecorder()
		}
		srec := NewCPTVFileRecorder(conf, cam, "flir", "lepton3", 1, "1.0.0")
		mp := motion.NewMotionProcessor(lepton3.ParseRawFrame, &conf.Motion, &conf.Recorder, &conf.Location, nil, mrec, cam, crec, srec)
		panicMsg := ""
		hot, id := false, 0
		stale, firstStale := 0, 0
		broken, blocked := false, false
		sinceBad := 1000 // steps since the last bad frame
		afterBad := false
		func() {
			defer func() {
				if p := recover(); p != nil {
					panicMsg = fmt.Sprint(p)
					afterBad = sinceBad <= 1 // the bad frame itself or the very next frame
				}
			}()
			for _, st := range sc.Steps {
				if st.A == "bad" {
					sinceBad = 0
				} else if st.A == "frame" {
					sinceBad++
				}
				switch st.A {
				case "breakdir":
					if !broken {
						os.Rename(dir, dir+".off")
						broken = true
					}
				case "blockdir":
					// the output directory is replaced by a regular file: the disk-space check (statfs) still succeeds,
					// every file creation in it fails - StartRecording itself fails
					if !broken {
						os.Rename(dir, dir+".off")
						os.WriteFile(dir, []byte("x"), 0644)
						broken, blocked = true, true
					}
				case "fixdir":
					if broken {
						if blocked {
							os.Remove(dir)
							blocked = false
						}
						os.Rename(dir+".off", dir)
						broken = false
					}
				case "fillfs":
					if fsLimit {
						syscall.Setrlimit(syscall.RLIMIT_FSIZE, &syscall.Rlimit{Cur: 300, Max: unlimited.Max})
					} else if f, err := os.Create(filepath.Join(base, "filler")); err == nil {
						chunk := make([]byte, 64*1024)
						for {
							if _, err := f.Write(chunk); err != nil {
								break
							}
						}
						small := make([]byte, 512)
						for {
							if _, err := f.Write(small); err != nil {
								break
							}
						}
						f.Close()
					}
				case "freefs":
					if fsLimit {
						syscall.Setrlimit(syscall.RLIMIT_FSIZE, &unlimited)
					}
					os.Remove(filepath.Join(base, "filler"))
				case "snapreq":
					mp.StartSnapshot = true
				case "reset":
					mp.Reset(cam)
				case "bad":
					mp.Process(rsLepton(4, 3, 60000, 200, uint32(60000+id*100), true))
				case "frame":
					if st.Motion {
						hot = !hot
					}
					id++
					lvl := 200
					if hot {
						lvl = 300
					}
					mp.Process(rsLepton(4, 3, id, lvl, uint32(60000+id*100), false))
					// what a snapshot request served right now would return: the frame just processed
					if _, rf := mp.GetRecentFrame(); rf == nil || int(rf.Pix[0][0]) != id {
						stale++
						if firstStale == 0 {
							firstStale = id
						}
					}
					time.Sleep(1200 * time.Microsecond)
				}
			}
		}()
		if broken {
			if blocked {
				os.Remove(dir)
			}
			os.Rename(dir+".off", dir)
		}
		if fsLimit {
			syscall.Setrlimit(syscall.RLIMIT_FSIZE, &unlimited)
		}
		os.Remove(filepath.Join(base, "filler"))
		mrec.Stop()
		// the last motion recording that was completed
		files := veList(dir)
		var lastIds []int
		allIds := [][]int{}
		undec := 0
		names := []string{}
		for _, f := range files {
			names = append(names, f["name"].(string))
			if f["kind"] == "final" {
				if d, _ := f["decodes"].(bool); !d {
					undec++
				} else if ids, ok := f["ids"].([]int); ok && len(ids) > 0 {
					lastIds = ids
					allIds = append(allIds, ids)
				}
			}
		}
		sort.Strings(names)
		for _, f := range veList(filepath.Join(dir, "constant-recordings")) {
			if f["kind"] == "final" {
				if d, _ := f["decodes"].(bool); !d {
					undec++
				}
			}
		}
		enc.Encode(map[string]interface{}{"ev": "realsinks", "script": si, "panic": panicMsg, "undecodable": undec,
			"frames": id, "last": lastIds, "N": sc.Preview*sc.Fps + sc.Trig, "MinF": sc.Min * sc.Fps, "files": len(files), "all": allIds, "after_bad": afterBad,
			"stale_snapshots": stale, "first_stale": firstStale})
	}
}
