//go:build verif

package main

import (
	"encoding/json"
	"fmt"
	"os"
	"path/filepath"
	"strings"
	"testing"
)

// TestVerifConfigLengths: the recording-length settings as the daemon reads them at start-up (ParseConfig on a
// generated config.toml): which combinations are accepted and what values the processor would be built with.
func TestVerifConfigLengths(t *testing.T) {
	in, outp := os.Getenv("VERIF_SCRIPT"), os.Getenv("VERIF_OUT")
	if in == "" || outp == "" {
		t.Skip("driver only")
	}
	b, _ := os.ReadFile(in)
	var all struct {
		Configs []struct {
			Min, Max, Preview int
			Toml              string
		} `json:"configs"`
	}
	if err := json.Unmarshal(b, &all); err != nil {
		t.Fatal(err)
	}
	fo, _ := os.Create(outp)
	defer fo.Close()
	enc := json.NewEncoder(fo)
	for i, c := range all.Configs {
		dir := t.TempDir()
		txt := strings.ReplaceAll(strings.ReplaceAll(c.Toml, "{OUT}", filepath.Join(dir, "out")), "{SOCK}", filepath.Join(dir, "frames.sock"))
		os.WriteFile(filepath.Join(dir, "config.toml"), []byte(txt), 0644)
		ev := map[string]interface{}{"ev": "cfgparse", "i": i, "min": c.Min, "max": c.Max, "preview": c.Preview, "err": "",
			"got_min": -1, "got_max": -1, "got_preview": -1}
		conf, err := ParseConfig(dir)
		if err != nil {
			ev["err"] = err.Error()
		} else {
			ev["got_min"], ev["got_max"], ev["got_preview"] = conf.Recorder.MinSecs, conf.Recorder.MaxSecs, conf.Recorder.PreviewSecs
		}
		enc.Encode(ev)
	}
}

// TestVerifMotionConfig: the motion settings as they reach the detector (ParseConfig + LoadMotionConfig(model), the
// path handleConn takes on every connection) next to what the generated config.toml says.
func TestVerifMotionConfig(t *testing.T) {
	in, outp := os.Getenv("VERIF_SCRIPT"), os.Getenv("VERIF_OUT")
	if in == "" || outp == "" {
		t.Skip("driver only")
	}
	b, _ := os.ReadFile(in)
	var all struct {
		Configs []struct {
			Toml  string
			Model string
			Set   map[string]string
		} `json:"configs"`
	}
	if err := json.Unmarshal(b, &all); err != nil {
		t.Fatal(err)
	}
	fo, _ := os.Create(outp)
	defer fo.Close()
	enc := json.NewEncoder(fo)
	bs := func(v bool) string {
		if v {
			return "true"
		}
		return "false"
	}
	for i, c := range all.Configs {
		dir := t.TempDir()
		txt := strings.ReplaceAll(strings.ReplaceAll(c.Toml, "{OUT}", filepath.Join(dir, "out")), "{SOCK}", filepath.Join(dir, "frames.sock"))
		os.WriteFile(filepath.Join(dir, "config.toml"), []byte(txt), 0644)
		ev := map[string]interface{}{"ev": "motioncfg", "i": i, "err": "", "pairs": [][]string{}}
		conf, err := ParseConfig(dir)
		if err == nil {
			err = conf.LoadMotionConfig(c.Model)
		}
		if err != nil {
			ev["err"] = err.Error()
		} else {
			m := conf.Motion
			got := map[string]string{
				"dynamic-threshold": bs(m.DynamicThreshold), "temp-thresh": fmt.Sprint(m.TempThresh),
				"temp-thresh-min": fmt.Sprint(m.TempThreshMin), "temp-thresh-max": fmt.Sprint(m.TempThreshMax),
				"delta-thresh": fmt.Sprint(m.DeltaThresh), "count-thresh": fmt.Sprint(m.CountThresh),
				"frame-compare-gap": fmt.Sprint(m.FrameCompareGap), "use-one-diff-only": bs(m.UseOneDiffOnly),
				"trigger-frames": fmt.Sprint(m.TriggerFrames), "warmer-only": bs(m.WarmerOnly), "edge-pixels": fmt.Sprint(m.EdgePixels),
			}
			pairs := [][]string{}
			for k, v := range c.Set {
				pairs = append(pairs, []string{k, v, got[k]})
			}
			ev["pairs"] = pairs
		}
		enc.Encode(ev)
	}
}
