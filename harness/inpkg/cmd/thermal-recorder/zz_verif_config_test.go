//go:build verif

package main

import (
	"encoding/json"
	"fmt"
	"os"
	"path/filepath"
	"strconv"
	"strings"
	"syscall"
	"testing"
	"time"

	"github.com/TheCacophonyProject/window"
)

// TestVerifConfigLengths: the recording-length settings as the daemon reads them at start-up (ParseConfig on a
// generated config.toml): which combinations are accepted and what values the processor would be built with.
func TestVerifConfigLengths(t *testing.T) {
	in, outp := os.Getenv("VERIF_SCRIPT"), os.Getenv("VERIF_OUT")
	if in == "" || outp == "" {
		t.Skip("driver only")
	}
	b, _ := os.ReadFile(in)
	var all struct {
		Configs []struct {
			Min, Max, Preview int
			Toml              string
		} `json:"configs"`
	}
	if err := json.Unmarshal(b, &all); err != nil {
		t.Fatal(err)
	}
	fo, _ := os.Create(outp)
	defer fo.Close()
	enc := json.NewEncoder(fo)
	for i, c := range all.Configs {
		dir := t.TempDir()
		txt := strings.ReplaceAll(strings.ReplaceAll(c.Toml, "{OUT}", filepath.Join(dir, "out")), "{SOCK}", filepath.Join(dir, "frames.sock"))
		os.WriteFile(filepath.Join(dir, "config.toml"), []byte(txt), 0644)
		ev := map[string]interface{}{"ev": "cfgparse", "i": i, "min": c.Min, "max": c.Max, "preview": c.Preview, "err": "",
			"got_min": -1, "got_max": -1, "got_preview": -1}
		conf, err := ParseConfig(dir)
		if err != nil {
			ev["err"] = err.Error()
		} else {
			ev["got_min"], ev["got_max"], ev["got_preview"] = conf.Recorder.MinSecs, conf.Recorder.MaxSecs, conf.Recorder.PreviewSecs
		}
		enc.Encode(ev)
	}
}

// TestVerifMotionConfig: the motion settings as they reach the detector (ParseConfig + LoadMotionConfig(model), the
// path handleConn takes on every connection) next to what the generated config.toml says.
func TestVerifMotionConfig(t *testing.T) {
	in, outp := os.Getenv("VERIF_SCRIPT"), os.Getenv("VERIF_OUT")
	if in == "" || outp == "" {
		t.Skip("driver only")
	}
	b, _ := os.ReadFile(in)
	var all struct {
		Configs []struct {
			Toml  string
			Model string
			Set   map[string]string
		} `json:"configs"`
	}
	if err := json.Unmarshal(b, &all); err != nil {
		t.Fatal(err)
	}
	fo, _ := os.Create(outp)
	defer fo.Close()
	enc := json.NewEncoder(fo)
	bs := func(v bool) string {
		if v {
			return "true"
		}
		return "false"
	}
	for i, c := range all.Configs {
		dir := t.TempDir()
		txt := strings.ReplaceAll(strings.ReplaceAll(c.Toml, "{OUT}", filepath.Join(dir, "out")), "{SOCK}", filepath.Join(dir, "frames.sock"))
		os.WriteFile(filepath.Join(dir, "config.toml"), []byte(txt), 0644)
		ev := map[string]interface{}{"ev": "motioncfg", "i": i, "err": "", "pairs": [][]string{}}
		conf, err := ParseConfig(dir)
		if err == nil {
			err = conf.LoadMotionConfig(c.Model)
		}
		if err != nil {
			ev["err"] = err.Error()
		} else {
			m := conf.Motion
			got := map[string]string{
				"dynamic-threshold": bs(m.DynamicThreshold), "temp-thresh": fmt.Sprint(m.TempThresh),
				"temp-thresh-min": fmt.Sprint(m.TempThreshMin), "temp-thresh-max": fmt.Sprint(m.TempThreshMax),
				"delta-thresh": fmt.Sprint(m.DeltaThresh), "count-thresh": fmt.Sprint(m.CountThresh),
				"frame-compare-gap": fmt.Sprint(m.FrameCompareGap), "use-one-diff-only": bs(m.UseOneDiffOnly),
				"trigger-frames": fmt.Sprint(m.TriggerFrames), "warmer-only": bs(m.WarmerOnly), "edge-pixels": fmt.Sprint(m.EdgePixels),
			}
			pairs := [][]string{}
			for k, v := range c.Set {
				pairs = append(pairs, []string{k, v, got[k]})
			}
			ev["pairs"] = pairs
		}
		enc.Encode(ev)
	}
}

// TestVerifDiskCheck: the storage layer's free-space gate (checkDiskSpace) against the file system's own numbers for
// the directory: the space AVAILABLE to the daemon (statfs f_bavail) compared with min-disk-space-mb, asked just below,
// at and just above the boundary, and - where the file system reserves blocks - inside the reserved band.
func TestVerifDiskCheck(t *testing.T) {
	outp := os.Getenv("VERIF_OUT")
	if outp == "" {
		t.Skip("driver only")
	}
	fo, _ := os.Create(outp)
	defer fo.Close()
	enc := json.NewEncoder(fo)
	dirs := []string{t.TempDir(), "/tmp", "/var/tmp", "/dev/shm", "."}
	for _, dir := range dirs {
		var fs syscall.Statfs_t
		if err := syscall.Statfs(dir, &fs); err != nil || fs.Blocks == 0 {
			continue
		}
		avail := fs.Bavail * uint64(fs.Bsize) / 1024 / 1024
		free := fs.Bfree * uint64(fs.Bsize) / 1024 / 1024
		cands := []uint64{0, 1, avail / 2, avail + 100000}
		if avail > 300 {
			cands = append(cands, avail-200) // other processes move the numbers a little: stay 200 MB off the boundary
		}
		cands = append(cands, avail+200)
		if free > avail+1000 {
			cands = append(cands, (avail+free)/2, free-200) // inside the reserved band
		}
		for _, mb := range cands {
			ok, err := checkDiskSpace(mb, dir)
			var fs2 syscall.Statfs_t
			syscall.Statfs(dir, &fs2)
			avail2 := fs2.Bavail * uint64(fs2.Bsize) / 1024 / 1024
			lo, hi := avail, avail2
			if lo > hi {
				lo, hi = hi, lo
			}
			enc.Encode(map[string]interface{}{"ev": "diskcheck", "dir": dir, "mb": mb, "avail_lo": lo, "avail_hi": hi, "free": free,
				"ok": ok, "err": err != nil})
		}
	}
}

// TestVerifPrune: deleteExcessRecordings on a small file system (VERIF_DIR is a directory on a file system of a few MB
// that the harness mounted).  Per scenario: files are created, the numbers of the file system are read, the function
// runs, the directory is listed again.
func TestVerifPrune(t *testing.T) {
	dir, in, outp := os.Getenv("VERIF_DIR"), os.Getenv("VERIF_SCRIPT"), os.Getenv("VERIF_OUT")
	if dir == "" || in == "" || outp == "" {
		t.Skip("driver only")
	}
	b, _ := os.ReadFile(in)
	var all struct {
		Scenarios []struct {
			Files []struct {
				Name string
				KB   int
			}
			Others []struct {
				Name string
				KB   int
			}
		} `json:"scenarios"`
	}
	if err := json.Unmarshal(b, &all); err != nil {
		t.Fatal(err)
	}
	fo, _ := os.Create(outp)
	defer fo.Close()
	enc := json.NewEncoder(fo)
	write := func(name string, kb int) {
		os.WriteFile(filepath.Join(dir, name), make([]byte, kb*1024), 0644)
	}
	blocksOf := func(name string, bsize int64) int64 {
		var st syscall.Stat_t
		if syscall.Stat(filepath.Join(dir, name), &st) != nil {
			return 0
		}
		return (st.Blocks*512 + bsize - 1) / bsize
	}
	for si, sc := range all.Scenarios {
		ents, _ := os.ReadDir(dir)
		for _, e := range ents {
			os.RemoveAll(filepath.Join(dir, e.Name()))
		}
		for _, f := range sc.Others {
			write(f.Name, f.KB)
		}
		for _, f := range sc.Files {
			write(f.Name, f.KB)
		}
		var fs syscall.Statfs_t
		syscall.Statfs(dir, &fs)
		matches, _ := filepath.Glob(filepath.Join(dir, "*.cptv*")) // sorted = oldest first
		files := []map[string]interface{}{}
		for _, m := range matches {
			files = append(files, map[string]interface{}{"name": filepath.Base(m), "blocks": blocksOf(filepath.Base(m), int64(fs.Bsize))})
		}
		others := []string{}
		for _, f := range sc.Others {
			others = append(others, f.Name)
		}
		err := deleteExcessRecordings(dir)
		left, othersLeft := []string{}, []string{}
		after, _ := filepath.Glob(filepath.Join(dir, "*.cptv*"))
		for _, m := range after {
			left = append(left, filepath.Base(m))
		}
		for _, f := range sc.Others {
			if fileExists(filepath.Join(dir, f.Name)) {
				othersLeft = append(othersLeft, f.Name)
			}
		}
		enc.Encode(map[string]interface{}{"ev": "prune", "scenario": si, "total": fs.Blocks, "avail": fs.Bavail, "files": files,
			"others": others, "left": left, "others_left": othersLeft, "err": err != nil})
	}
}

// TestVerifConfigWindow: the recording window as the daemon loads it (ParseConfig on a generated config.toml with a
// [location] and absolute or sunrise/sunset-relative [windows]) next to window.New(start, stop, lat, long) of the
// unchanged window module, both asked at the same scripted instants (Window.Now): Active, NextStart, NextEnd.
func TestVerifConfigWindow(t *testing.T) {
	in, outp := os.Getenv("VERIF_SCRIPT"), os.Getenv("VERIF_OUT")
	if in == "" || outp == "" {
		t.Skip("driver only")
	}
	b, _ := os.ReadFile(in)
	var all struct {
		Configs []struct {
			Toml, Start, Stop, Lat, Long string
		} `json:"configs"`
		Instants []int64 `json:"instants"`
	}
	if err := json.Unmarshal(b, &all); err != nil {
		t.Fatal(err)
	}
	fo, _ := os.Create(outp)
	defer fo.Close()
	enc := json.NewEncoder(fo)
	ask := func(w *window.Window) []int64 {
		out := []int64{}
		for _, ts := range all.Instants {
			at := time.Unix(ts, 0)
			w.Now = func() time.Time { return at }
			a := int64(0)
			if w.Active() {
				a = 1
			}
			out = append(out, a, w.NextStart().Unix(), w.NextEnd().Unix())
		}
		return out
	}
	for i, c := range all.Configs {
		dir := t.TempDir()
		txt := strings.ReplaceAll(strings.ReplaceAll(c.Toml, "{OUT}", filepath.Join(dir, "out")), "{SOCK}", filepath.Join(dir, "frames.sock"))
		os.WriteFile(filepath.Join(dir, "config.toml"), []byte(txt), 0644)
		ev := map[string]interface{}{"ev": "cfgwindow", "i": i, "start": c.Start, "stop": c.Stop, "lat": c.Lat, "long": c.Long,
			"err": "", "got": []int64{}, "ref": []int64{}}
		la, _ := strconv.ParseFloat(c.Lat, 32)
		lo, _ := strconv.ParseFloat(c.Long, 32)
		ref, rerr := window.New(c.Start, c.Stop, float64(float32(la)), float64(float32(lo)))
		if rerr != nil {
			t.Fatalf("window.New(%q, %q): %v", c.Start, c.Stop, rerr)
		}
		conf, err := ParseConfig(dir)
		if err != nil {
			ev["err"] = err.Error()
		} else {
			w := conf.Recorder.Window
			ev["got"] = ask(&w)
		}
		ev["ref"] = ask(ref)
		enc.Encode(ev)
	}
}
