//go:build verif

package main

import (
	"bufio"
	"encoding/json"
	"fmt"
	"io"
	"log"
	"math/rand"
	"os"
	"path/filepath"
	"sort"
	"strconv"
	"strings"
	"testing"
	"time"

	goconfig "github.com/TheCacophonyProject/go-config"
	cptv "github.com/TheCacophonyProject/go-cptv"
	"github.com/TheCacophonyProject/go-cptv/cptvframe"
	"github.com/TheCacophonyProject/thermal-recorder/recorder"
	"github.com/TheCacophonyProject/thermal-recorder/throttle"
	"github.com/TheCacophonyProject/window"
	yaml "gopkg.in/yaml.v2"
)

type vrFrame struct {
	Gen          string  `json:"gen"` // pixel generator
	Seed         int64   `json:"seed"`
	TimeOnMs     int     `json:"timeOn"`
	LastFFCMs    int     `json:"lastFFC"`
	TempC        float64 `json:"tempC"`
	LastFFCTempC float64 `json:"lastFFCTempC"`
}
type vrRecording struct {
	AdvMs  int       `json:"adv_ms"` // throttled scripts: clock advance before this recording
	Thresh int       `json:"thresh"`
	Bg     vrFrame   `json:"bg"`
	Frames []vrFrame `json:"frames"`
}
type vrScript struct {
	W, H, Fps  int
	Device     string                 `json:"device"`
	DeviceID   int                    `json:"deviceid"`
	Brand      string                 `json:"brand"`
	Model      string                 `json:"model"`
	Serial     int                    `json:"serial"`
	Firmware   string                 `json:"firmware"`
	Preview    int                    `json:"preview"`
	Lat        float32                `json:"lat"`
	Long       float32                `json:"long"`
	Alt        float32                `json:"alt"`
	Acc        float32                `json:"acc"`
	LocTimeMs  int64                  `json:"loctime"`
	Motion     goconfig.ThermalMotion `json:"motion"`
	Recordings []vrRecording          `json:"recordings"`
	Throttle   *struct {
		BucketS int `json:"bucket"`
		MinLenS int `json:"minlen"`
		K       int `json:"k"`        // ms per token
		FrameMs int `json:"frame_ms"` // clock advance per frame
	} `json:"throttle"`
}

type vrClock struct{ now time.Time }

func (c *vrClock) Now() time.Time        { return c.now }
func (c *vrClock) Sleep(d time.Duration) { c.now = c.now.Add(d) }

func vrPix(g vrFrame, w, h int) [][]int {
	rnd := rand.New(rand.NewSource(g.Seed))
	out := make([][]int, h)
	for y := range out {
		out[y] = make([]int, w)
		for x := range out[y] {
			var v int
			switch g.Gen {
			case "rand16":
				v = rnd.Intn(65536)
			case "zero":
				v = 0
			case "max":
				v = 65535
			case "alt":
				if (x+y)%2 == 0 {
					v = 0
				} else {
					v = 65535
				}
			case "ramp":
				v = (int(g.Seed) + 257*(y*w+x)) % 65536
			case "small":
				v = 3000 + rnd.Intn(7) - 3
			case "edges":
				v = []int{0, 1, 255, 256, 32767, 32768, 65534, 65535}[rnd.Intn(8)]
			default:
				v = 3000 + rnd.Intn(2000)
			}
			out[y][x] = v
		}
	}
	return out
}

func f32s(v float32) string { return strconv.FormatFloat(float64(v), 'g', -1, 32) }

func vrFrameRec(g vrFrame, pix [][]int, bg bool) map[string]interface{} {
	if bg {
		return map[string]interface{}{"bg": true, "pix": pix}
	}
	return map[string]interface{}{"bg": false, "pix": pix, "timeon": g.TimeOnMs, "lastffc": g.LastFFCMs,
		"tempc": f32s(float32(g.TempC)), "lastffctempc": f32s(float32(g.LastFFCTempC))}
}

func vrMotionMap(m goconfig.ThermalMotion, thresh int) map[string]string {
	return map[string]string{
		"dynamicthreshold": fmt.Sprint(m.DynamicThreshold), "tempthreshmin": fmt.Sprint(m.TempThreshMin),
		"tempthreshmax": fmt.Sprint(m.TempThreshMax), "tempthresh": fmt.Sprint(m.TempThresh),
		"deltathresh": fmt.Sprint(m.DeltaThresh), "countthresh": fmt.Sprint(m.CountThresh),
		"framecomparegap": fmt.Sprint(m.FrameCompareGap), "useonediffonly": fmt.Sprint(m.UseOneDiffOnly),
		"triggerframes": fmt.Sprint(m.TriggerFrames), "warmeronly": fmt.Sprint(m.WarmerOnly),
		"edgepixels": fmt.Sprint(m.EdgePixels), "verbose": fmt.Sprint(m.Verbose),
		"triggeredthresh": fmt.Sprint(thresh)}
}

// vrDecode reads one finished file with the standard reader into the same shape as the expectation.
func vrDecode(path string) (map[string]interface{}, error) {
	fr, err := cptv.NewFileReader(path)
	if err != nil {
		return nil, err
	}
	defer fr.Close()
	r := fr.Reader
	mm := map[string]interface{}{}
	yaml.Unmarshal([]byte(r.MotionConfig()), &mm)
	motion := map[string]string{}
	for k, v := range mm {
		motion[k] = fmt.Sprint(v)
	}
	out := map[string]interface{}{
		"device": r.DeviceName(), "deviceid": r.DeviceID(), "brand": r.BrandName(), "model": r.ModelName(),
		"serial": r.SerialNumber(), "firmware": r.FirmwareVersion(), "resx": r.ResX(), "resy": r.ResY(), "fps": r.FPS(),
		"preview": r.PreviewSecs(), "lat": f32s(r.Latitude()), "long": f32s(r.Longitude()), "alt": f32s(r.Altitude()),
		"acc": f32s(r.Accuracy()), "loctime": fmt.Sprint(r.LocTimestamp().UnixNano() / 1e6), "motion": motion,
		"hasbg": r.HasBackgroundFrame(), "nframes": int(r.NumFrames()),
	}
	frames := []interface{}{}
	f := r.EmptyFrame()
	for {
		err := r.ReadFrame(f)
		if err == io.EOF {
			break
		}
		if err != nil {
			return nil, err
		}
		pix := make([][]int, len(f.Pix))
		for y := range f.Pix {
			pix[y] = make([]int, len(f.Pix[y]))
			for x, v := range f.Pix[y] {
				pix[y][x] = int(v)
			}
		}
		if f.Status.BackgroundFrame {
			frames = append(frames, map[string]interface{}{"bg": true, "pix": pix})
		} else {
			frames = append(frames, map[string]interface{}{"bg": false, "pix": pix,
				"timeon": int(f.Status.TimeOn / time.Millisecond), "lastffc": int(f.Status.LastFFCTime / time.Millisecond),
				"tempc": f32s(float32(f.Status.TempC)), "lastffctempc": f32s(float32(f.Status.LastFFCTempC))})
		}
	}
	out["frames"] = frames
	return out, nil
}

// TestVerifRecord: generated camera/device descriptions, pixels and telemetry
// through the real CPTVFileRecorder; every finished file is decoded with the
// standard reader and logged next to what was recorded.
func TestVerifRecord(t *testing.T) {
	in, outp := os.Getenv("VERIF_SCRIPT"), os.Getenv("VERIF_OUT")
	if in == "" || outp == "" {
		t.Skip("driver only")
	}
	log.SetOutput(io.Discard)
	b, _ := os.ReadFile(in)
	var all struct {
		Scripts []vrScript `json:"scripts"`
	}
	if err := json.Unmarshal(b, &all); err != nil {
		t.Fatal(err)
	}
	fo, _ := os.Create(outp)
	defer fo.Close()
	bw := bufio.NewWriterSize(fo, 1<<20)
	defer bw.Flush()
	enc := json.NewEncoder(bw)
	for si, sc := range all.Scripts {
		dir := t.TempDir()
		w, _ := window.New("12:00", "12:00", 0, 0)
		conf := &Config{DeviceName: sc.Device, DeviceID: sc.DeviceID, OutputDir: dir,
			Recorder: recorder.RecorderConfig{MinSecs: 1, MaxSecs: 2, PreviewSecs: sc.Preview, Window: *w},
			Motion:   sc.Motion,
			Location: goconfig.Location{Latitude: sc.Lat, Longitude: sc.Long, Altitude: sc.Alt, Accuracy: sc.Acc}}
		if sc.LocTimeMs != 0 {
			conf.Location.Timestamp = time.Unix(0, sc.LocTimeMs*1e6)
		}
		cam := vfCam{sc.W, sc.H, sc.Fps}
		fileRec := NewCPTVFileRecorder(conf, cam, sc.Brand, sc.Model, sc.Serial, sc.Firmware)
		var rec recorder.Recorder = fileRec
		clk := &vrClock{now: time.Unix(50000, 0)}
		if sc.Throttle != nil {
			// the chain main.go builds when the throttler is activated, with a manual clock
			tc := &goconfig.ThermalThrottler{Activate: true, BucketSize: time.Duration(sc.Throttle.BucketS) * time.Second,
				MinRefill: time.Duration(sc.Throttle.K*sc.Throttle.MinLenS*sc.Fps) * time.Millisecond}
			rec = throttle.NewThrottledRecorderWithClock(fileRec, tc, sc.Throttle.MinLenS, nil, clk, cam)
		}
		seenFiles := map[string]bool{}
		expected := []map[string]interface{}{}
		for _, rc := range sc.Recordings {
			clk.now = clk.now.Add(time.Duration(rc.AdvMs) * time.Millisecond)
			bg := cptvframe.NewFrame(cam)
			bgPix := vrPix(rc.Bg, sc.W, sc.H)
			for y := range bgPix {
				for x, v := range bgPix[y] {
					bg.Pix[y][x] = uint16(v)
				}
			}
			if err := rec.StartRecording(bg, uint16(rc.Thresh)); err != nil {
				enc.Encode(map[string]interface{}{"ev": "starterr", "script": si, "err": err.Error()})
				continue
			}
			frames := []interface{}{vrFrameRec(rc.Bg, bgPix, true)}
			f := cptvframe.NewFrame(cam)
			for _, g := range rc.Frames {
				pix := vrPix(g, sc.W, sc.H)
				for y := range pix {
					for x, v := range pix[y] {
						f.Pix[y][x] = uint16(v)
					}
				}
				f.Status = cptvframe.Telemetry{TimeOn: time.Duration(g.TimeOnMs) * time.Millisecond,
					LastFFCTime: time.Duration(g.LastFFCMs) * time.Millisecond, TempC: g.TempC, LastFFCTempC: g.LastFFCTempC}
				rec.WriteFrame(f)
				if sc.Throttle != nil {
					clk.now = clk.now.Add(time.Duration(sc.Throttle.FrameMs) * time.Millisecond)
					time.Sleep(1200 * time.Microsecond) // a throttle cut and restart must not reuse the 1 ms file name
				}
				frames = append(frames, vrFrameRec(g, pix, false))
			}
			rec.StopRecording()
			time.Sleep(2 * time.Millisecond)
			lt := "0"
			if sc.LocTimeMs != 0 {
				lt = fmt.Sprint(sc.LocTimeMs)
			} else {
				lt = fmt.Sprint(time.Time{}.UnixNano() / 1e6)
			}
			exp1 := map[string]interface{}{
				"device": sc.Device, "deviceid": sc.DeviceID, "brand": sc.Brand, "model": sc.Model, "serial": sc.Serial,
				"firmware": sc.Firmware, "resx": sc.W, "resy": sc.H, "fps": sc.Fps, "preview": sc.Preview,
				"lat": f32s(sc.Lat), "long": f32s(sc.Long), "alt": f32s(sc.Alt), "acc": f32s(sc.Acc), "loctime": lt,
				"motion": vrMotionMap(sc.Motion, rc.Thresh), "hasbg": true, "nframes": len(frames), "frames": frames}
			if sc.Throttle == nil {
				expected = append(expected, exp1)
				continue
			}
			// throttled: whatever files this trigger produced carry ITS background and threshold, and frames of it in order
			nn, _ := filepath.Glob(filepath.Join(dir, "*.cptv"))
			sort.Strings(nn)
			for _, n := range nn {
				if seenFiles[n] {
					continue
				}
				seenFiles[n] = true
				dec, err := vrDecode(n)
				if err != nil {
					enc.Encode(map[string]interface{}{"ev": "undecodable", "script": si, "file": filepath.Base(n), "err": err.Error()})
					continue
				}
				enc.Encode(map[string]interface{}{"ev": "tfile", "script": si, "expected": exp1, "decoded": dec})
			}
		}
		if sc.Throttle != nil {
			continue
		}
		names, _ := filepath.Glob(filepath.Join(dir, "*.cptv"))
		sort.Strings(names)
		all, _ := os.ReadDir(dir)
		stray := []string{}
		for _, e := range all {
			if !strings.HasSuffix(e.Name(), ".cptv") {
				stray = append(stray, e.Name())
			}
		}
		enc.Encode(map[string]interface{}{"ev": "fileset", "script": si, "expected": len(expected), "found": len(names), "stray": stray})
		for i, n := range names {
			if i >= len(expected) {
				break
			}
			dec, err := vrDecode(n)
			if err != nil {
				enc.Encode(map[string]interface{}{"ev": "undecodable", "script": si, "file": filepath.Base(n), "err": err.Error()})
				continue
			}
			enc.Encode(map[string]interface{}{"ev": "file", "script": si, "expected": expected[i], "decoded": dec})
		}
	}
}
