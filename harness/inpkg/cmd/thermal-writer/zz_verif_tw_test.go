//go:build verif

package main

import (
	"bufio"
	"bytes"
	"encoding/binary"
	"encoding/json"
	"fmt"
	"io"
	"log"
	"net"
	"os"
	"path/filepath"
	"runtime"
	"sort"
	"sync"
	"testing"
	"time"
)

type twScript struct {
	FrameSize  int      `json:"framesize"`
	NFrames    int      `json:"nframes"`
	CutLast    bool     `json:"cut_last"` // the connection dies in the middle of the last frame
	Chunks     []int    `json:"chunks"`
	Schedule   []twStep `json:"schedule"` // model actions to replay through the gates (gated mode)
	Mode       string   `json:"mode"`     // free | gated | backlog
	Gomaxprocs int      `json:"gomaxprocs"`
	StallMs    int      `json:"stall_ms"` // free mode: the writer sleeps this long at w.recv every stall_every frames
	StallEvery int      `json:"stall_every"`
	Coalesce   bool     `json:"coalesce"`  // header and all frames in a single write
	RotateMs   int      `json:"rotate_ms"` // verif hook: start a new file every rotate_ms instead of every minute
	PauseUs    int      `json:"pause_us"`  // sender pause after each queued item
}
type twStep struct {
	A string `json:"a"`
	K int    `json:"k"`
}

// twMarkerFrames: every 5th frame of at least 16 bytes begins with the five bytes "clear" (thermal-recorder's in-band
// camera-restart marker means nothing to thermal-writer: frame contents are arbitrary); such a frame carries its id
// at offset 8.
var twMarkerFrames = true

func twIsMarkerFrame(id, size int) bool { return twMarkerFrames && size >= 16 && id%5 == 0 }

func twFrame(id, size int) []byte {
	b := make([]byte, size)
	for j := range b {
		b[j] = byte((id*31 + j*7 + id>>8) % 251)
	}
	if twIsMarkerFrame(id, size) {
		copy(b, "clear")
		binary.LittleEndian.PutUint32(b[8:], uint32(id))
	} else if size >= 4 {
		binary.LittleEndian.PutUint32(b, uint32(id))
	}
	return b
}

// gates: a goroutine arriving at a gated point waits until it is released.
type twGates struct {
	mu      sync.Mutex
	cond    *sync.Cond
	arrived map[string]int
	allowed map[string]int
	free    bool
	gated   map[string]bool
	exited  bool
	stallMs int
	every   int
}

func newGates() *twGates {
	g := &twGates{arrived: map[string]int{}, allowed: map[string]int{}, gated: map[string]bool{}}
	g.cond = sync.NewCond(&g.mu)
	return g
}
func (g *twGates) hook(p string) {
	g.mu.Lock()
	g.arrived[p]++
	n := g.arrived[p]
	if p == "w.exit" {
		g.exited = true
	}
	g.cond.Broadcast()
	for g.gated[p] && !g.free && g.allowed[p] < n {
		g.cond.Wait()
	}
	stall := g.free && p == "w.recv" && g.stallMs > 0 && g.every > 0 && n%g.every == 0
	g.mu.Unlock()
	if stall {
		time.Sleep(time.Duration(g.stallMs) * time.Millisecond)
	}
}

// waitArrived waits until point p has been reached n times.
func (g *twGates) waitArrived(p string, n int, d time.Duration) bool {
	deadline := time.Now().Add(d)
	g.mu.Lock()
	defer g.mu.Unlock()
	for g.arrived[p] < n {
		if time.Now().After(deadline) {
			return false
		}
		g.mu.Unlock()
		time.Sleep(200 * time.Microsecond)
		g.mu.Lock()
	}
	return true
}
func (g *twGates) release(p string) {
	g.mu.Lock()
	g.allowed[p]++
	g.cond.Broadcast()
	g.mu.Unlock()
}
func (g *twGates) setFree() {
	g.mu.Lock()
	g.free = true
	g.cond.Broadcast()
	g.mu.Unlock()
}

type twFile struct {
	Name       string `json:"name"`
	Wellformed bool   `json:"wellformed"`
	Intact     bool   `json:"intact"`
	Ids        []int  `json:"ids"`
	Msg        string `json:"msg,omitempty"`
}

// twParse reads a CPTR file per the format in thermalraw.go: magic, version,
// 'H' + fields, then 'F' + fields (FrameSize) + data, to EOF.
func twParse(path string, frameSize int, want map[string]string) twFile {
	out := twFile{Name: filepath.Base(path), Wellformed: true, Intact: true, Ids: []int{}}
	b, err := os.ReadFile(path)
	if err != nil {
		out.Wellformed, out.Msg = false, err.Error()
		return out
	}
	bad := func(m string) twFile { out.Wellformed, out.Msg = false, m; return out }
	if len(b) < 7 || string(b[:4]) != "CPTR" || b[4] != 0x02 || b[5] != 'H' {
		return bad("bad magic/version/header section")
	}
	pos := 6
	readFields := func() (map[byte][]byte, bool) {
		if pos >= len(b) {
			return nil, false
		}
		n := int(b[pos])
		pos++
		f := map[byte][]byte{}
		for i := 0; i < n; i++ {
			if pos+2 > len(b) {
				return nil, false
			}
			sz, code := int(b[pos]), b[pos+1]
			pos += 2
			if pos+sz > len(b) {
				return nil, false
			}
			f[code] = b[pos : pos+sz]
			pos += sz
		}
		return f, true
	}
	hf, ok := readFields()
	if !ok {
		return bad("truncated header fields")
	}
	for code, w := range map[byte]string{'E': want["model"], 'B': want["brand"], 'D': want["device"]} {
		if string(hf[code]) != w {
			return bad(fmt.Sprintf("header field %c = %q, want %q", code, hf[code], w))
		}
	}
	if len(hf['I']) != 4 || fmt.Sprint(binary.LittleEndian.Uint32(hf['I'])) != want["deviceid"] {
		return bad("device id in header differs from the configuration")
	}
	if len(hf['X']) != 4 || len(hf['Y']) != 4 || len(hf['Z']) != 1 || len(hf['T']) != 8 || len(hf['C']) != 1 || hf['C'][0] != 0 {
		return bad("header fields X/Y/Z/T/C missing or wrong size")
	}
	if fmt.Sprint(binary.LittleEndian.Uint32(hf['X'])) != want["resx"] || fmt.Sprint(binary.LittleEndian.Uint32(hf['Y'])) != want["resy"] ||
		fmt.Sprint(hf['Z'][0]) != want["fps"] {
		return bad("resolution / fps in header differ from the camera description")
	}
	for pos < len(b) {
		if b[pos] != 'F' {
			return bad(fmt.Sprintf("expected frame section at %d", pos))
		}
		pos++
		ff, ok := readFields()
		if !ok || len(ff['f']) != 4 {
			return bad("frame fields")
		}
		sz := int(binary.LittleEndian.Uint32(ff['f']))
		if sz != frameSize || pos+sz > len(b) {
			return bad(fmt.Sprintf("frame section of %d bytes at %d (file %d)", sz, pos, len(b)))
		}
		data := b[pos : pos+sz]
		pos += sz
		id := 0
		if sz >= 16 && string(data[:5]) == "clear" {
			id = int(binary.LittleEndian.Uint32(data[8:]))
		} else if sz >= 4 {
			id = int(binary.LittleEndian.Uint32(data))
		}
		out.Ids = append(out.Ids, id)
		if !bytes.Equal(data, twFrame(id, sz)) {
			out.Intact = false
		}
	}
	return out
}

// TestVerifTW drives the real handleConn/writer of thermal-writer.
func TestVerifTW(t *testing.T) {
	in, outp := os.Getenv("VERIF_SCRIPT"), os.Getenv("VERIF_OUT")
	if in == "" || outp == "" {
		t.Skip("driver only")
	}
	lb := &bytes.Buffer{}
	var lmu sync.Mutex
	log.SetOutput(writerFunc(func(p []byte) (int, error) { lmu.Lock(); defer lmu.Unlock(); return lb.Write(p) }))
	b, _ := os.ReadFile(in)
	var all struct {
		Scripts []twScript `json:"scripts"`
	}
	if err := json.Unmarshal(b, &all); err != nil {
		t.Fatal(err)
	}
	fo, _ := os.Create(outp)
	defer fo.Close()
	bw := bufio.NewWriter(fo)
	defer bw.Flush()
	enc := json.NewEncoder(bw)
	for si, sc := range all.Scripts {
		si, sc := si, sc
		watch := time.AfterFunc(90*time.Second, func() {
			// a script that does not finish is reported as stalled, with a goroutine dump, and the process exits
			buf := make([]byte, 1<<16)
			n := runtime.Stack(buf, true)
			enc.Encode(map[string]interface{}{"ev": "twrun", "script": si, "mode": sc.Mode, "framesize": sc.FrameSize,
				"nframes": sc.NFrames, "complete": 0, "files": []twFile{}, "exited": false, "panicked": false,
				"races": 0, "infeasible": "", "herr": "watchdog: script did not finish in 90 s", "backlog": 0,
				"stacks": string(buf[:n])})
			bw.Flush()
			os.Exit(3)
		})
		if sc.Gomaxprocs > 0 {
			runtime.GOMAXPROCS(sc.Gomaxprocs)
		}
		// handleConn multiplies these package-level intervals by fps on every connection
		frameLogIntervalFirstMin, frameLogInterval = 15, 60*5
		dir := t.TempDir()
		conf := &Config{DeviceID: 5, DeviceName: "verif-dev", OutputDir: dir}
		sock := filepath.Join(dir, "s.sock")
		l, err := net.Listen("unix", sock)
		if err != nil {
			t.Fatal(err)
		}
		g := newGates()
		g.stallMs, g.every = sc.StallMs, sc.StallEvery
		if sc.Mode == "gated" {
			for _, p := range []string{"r.took", "r.filled", "w.recv", "w.wrote"} {
				g.gated[p] = true
			}
		} else if sc.Mode == "backlog" {
			g.gated["w.recv"] = true
		} else {
			g.free = true
		}
		verifHook = g.hook
		verifRotateEvery = time.Duration(sc.RotateMs) * time.Millisecond
		done := make(chan error, 1)
		panicked := false
		go func() {
			c, err := l.Accept()
			if err != nil {
				done <- err
				return
			}
			defer func() {
				if p := recover(); p != nil {
					panicked = true
					done <- fmt.Errorf("panic: %v", p)
				}
			}()
			done <- handleConn(c, conf, false)
		}()
		conn, err := net.Dial("unix", sock)
		if err != nil {
			t.Fatal(err)
		}
		hdr := fmt.Sprintf("Brand: flir\nCameraSerial: 1\nFPS: 9\nFirmware: 1.2.3\nFrameSize: %d\nModel: lepton3\nResX: 16\nResY: 12\n\n", sc.FrameSize)
		coalesced := sc.Coalesce && sc.Mode == "free"
		if !coalesced {
			conn.Write([]byte(hdr))
		}
		// asynchronous sender: the scheduler must never block on a full socket buffer
		var sendMu sync.Mutex
		sendQ := [][]byte{}
		sendCond := sync.NewCond(&sendMu)
		closing := false
		sentDone := make(chan struct{})
		go func() {
			k := 0
			for {
				sendMu.Lock()
				for len(sendQ) == 0 && !closing {
					sendCond.Wait()
				}
				if len(sendQ) == 0 && closing {
					sendMu.Unlock()
					conn.Close()
					close(sentDone)
					return
				}
				p := sendQ[0]
				sendQ = sendQ[1:]
				sendMu.Unlock()
				if sc.PauseUs > 0 {
					time.Sleep(time.Duration(sc.PauseUs) * time.Microsecond)
				}
				for len(p) > 0 {
					n := len(p)
					if len(sc.Chunks) > 0 {
						c := sc.Chunks[k%len(sc.Chunks)]
						k++
						if c > 0 && c < n {
							n = c
						}
					}
					conn.Write(p[:n])
					p = p[n:]
				}
			}
		}()
		send := func(p []byte) { sendMu.Lock(); sendQ = append(sendQ, p); sendCond.Broadcast(); sendMu.Unlock() }
		half := sc.FrameSize / 2
		sentHalf1, sentFull := 0, 0 // highest frame whose first half / whole was queued
		infeasible := ""
		wait := 2 * time.Second
		nTook, nFilled, nRecv, nWrote := 0, 0, 0, 0
		switch sc.Mode {
		case "gated":
			for _, st := range sc.Schedule {
				switch st.A {
				case "r.take":
					nTook++
					if !g.waitArrived("r.took", nTook, wait) {
						infeasible = "r.take"
					}
					g.release("r.took")
				case "r.fill1":
					if st.K <= sc.NFrames && st.K == sentHalf1+1 {
						send(twFrame(st.K, sc.FrameSize)[:half])
						sentHalf1 = st.K
					}
				case "r.fill2":
					if st.K == sentHalf1 && st.K == sentFull+1 {
						send(twFrame(st.K, sc.FrameSize)[half:])
						sentFull = st.K
					}
					nFilled++
					if !g.waitArrived("r.filled", nFilled, wait) {
						infeasible = "r.fill2"
					}
				case "r.send":
					g.release("r.filled")
				case "w.recv":
					nRecv++
					if !g.waitArrived("w.recv", nRecv, wait) {
						infeasible = "w.recv"
					}
				case "w.w2":
					g.release("w.recv")
					nWrote++
					if !g.waitArrived("w.wrote", nWrote, wait) {
						infeasible = "w.w2"
					}
				case "w.return":
					g.release("w.wrote")
				}
				if infeasible != "" {
					break
				}
			}
			g.setFree()
		case "backlog":
			// the writer is parked after receiving its first frame while the reader fills everything in flight
		}
		// the rest of the stream runs free
		if coalesced {
			// the camera header and the frames arrive in one segment (a single write)
			all := []byte(hdr)
			for k := 1; k <= sc.NFrames; k++ {
				fr := twFrame(k, sc.FrameSize)
				if k == sc.NFrames && sc.CutLast {
					fr = fr[:sc.FrameSize/2]
				}
				all = append(all, fr...)
			}
			send(all)
		}
		for k := sentFull + 1; k <= sc.NFrames && !coalesced; k++ {
			fr := twFrame(k, sc.FrameSize)
			if k == sentHalf1 {
				fr = fr[half:]
			}
			if k == sc.NFrames && sc.CutLast {
				if k == sentHalf1 {
					break
				}
				fr = fr[:half]
			}
			send(fr)
		}
		complete := sc.NFrames
		if sc.CutLast && sc.NFrames > 0 {
			complete--
		}
		if sc.Mode == "backlog" {
			// wait until the reader cannot make progress any more (all buffers in flight), then open the gate
			last := -1
			for i := 0; i < 400; i++ {
				g.mu.Lock()
				cur := g.arrived["r.sent"]
				g.mu.Unlock()
				if cur == last && cur > 0 {
					break
				}
				last = cur
				time.Sleep(5 * time.Millisecond)
			}
			g.setFree()
		}
		sendMu.Lock()
		closing = true
		sendCond.Broadcast()
		sendMu.Unlock()
		<-sentDone
		var herr error
		select {
		case herr = <-done:
		case <-time.After(10 * time.Second):
			herr = fmt.Errorf("handleConn did not return")
		}
		exited := false
		for i := 0; i < 6000; i++ {
			g.mu.Lock()
			exited = g.exited
			g.mu.Unlock()
			if exited {
				break
			}
			time.Sleep(5 * time.Millisecond)
		}
		l.Close()
		names, _ := filepath.Glob(filepath.Join(dir, "*.cptr"))
		sort.Strings(names)
		files := []twFile{}
		want := map[string]string{"model": "lepton3", "brand": "flir", "device": "verif-dev", "deviceid": "5", "resx": "16", "resy": "12", "fps": "9"}
		for _, n := range names {
			files = append(files, twParse(n, sc.FrameSize, want))
		}
		g.mu.Lock()
		backlog := g.arrived["r.sent"] - g.arrived["w.wrote"]
		g.mu.Unlock()
		enc.Encode(map[string]interface{}{"ev": "twrun", "script": si, "mode": sc.Mode, "framesize": sc.FrameSize,
			"nframes": sc.NFrames, "complete": complete, "files": files, "exited": exited, "panicked": panicked,
			"races": 0, "infeasible": infeasible, "herr": fmt.Sprint(herr), "backlog": backlog})
		verifHook = nil
		verifRotateEvery = 0
		watch.Stop()
		if !exited {
			// goroutines of this connection are still parked: later scripts would not be independent
			bw.Flush()
			os.Exit(3)
		}
	}
}

type writerFunc func(p []byte) (int, error)

func (f writerFunc) Write(p []byte) (int, error) { return f(p) }

var _ = io.EOF

// twReconnect: two camera connections served one after the other, as main()'s accept loop does, while the writer of
// the first is still draining its backlog when the second connection starts (the writer stalls stall_ms per frame).
// Frame ids continue across the connections, so the files in name order must hold 1..n1+n2.
type twReconn struct {
	FrameSize int `json:"framesize"`
	N1        int `json:"n1"`
	N2        int `json:"n2"`
	StallMs   int `json:"stall_ms"`
	GapMs     int `json:"gap_ms"` // second connection starts this long after the first (file names have 1 s resolution)
}

func TestVerifTWReconnect(t *testing.T) {
	in, outp := os.Getenv("VERIF_SCRIPT"), os.Getenv("VERIF_OUT")
	if in == "" || outp == "" {
		t.Skip("driver only")
	}
	log.SetOutput(io.Discard)
	b, _ := os.ReadFile(in)
	var all struct {
		Scripts []twReconn `json:"scripts"`
	}
	if err := json.Unmarshal(b, &all); err != nil {
		t.Fatal(err)
	}
	fo, _ := os.Create(outp)
	defer fo.Close()
	enc := json.NewEncoder(fo)
	for si, sc := range all.Scripts {
		frameLogIntervalFirstMin, frameLogInterval = 15, 60*5
		dir := t.TempDir()
		conf := &Config{DeviceID: 5, DeviceName: "verif-dev", OutputDir: dir}
		sock := filepath.Join(dir, "s.sock")
		l, err := net.Listen("unix", sock)
		if err != nil {
			t.Fatal(err)
		}
		var mu sync.Mutex
		exits, recvd, overlap := 0, 0, 0
		second := false
		verifHook = func(p string) {
			switch p {
			case "w.exit":
				mu.Lock()
				exits++
				mu.Unlock()
			case "w.recv":
				mu.Lock()
				recvd++
				if second && exits == 0 {
					overlap++ // frames written while both writers were alive
				}
				mu.Unlock()
				time.Sleep(time.Duration(sc.StallMs) * time.Millisecond)
			}
		}
		verifRotateEvery = 0
		panicked := false
		herr := ""
		served := make(chan struct{}, 2)
		go func() { // main()'s accept loop
			for k := 0; k < 2; k++ {
				c, err := l.Accept()
				if err != nil {
					return
				}
				func() {
					defer func() {
						if p := recover(); p != nil {
							panicked = true
							herr = fmt.Sprint(p)
						}
					}()
					handleConn(c, conf, false)
				}()
				served <- struct{}{}
			}
		}()
		hdr := fmt.Sprintf("Brand: flir\nCameraSerial: 1\nFPS: 9\nFirmware: 1.2.3\nFrameSize: %d\nModel: lepton3\nResX: 16\nResY: 12\n\n", sc.FrameSize)
		t0 := time.Now()
		sendConn := func(from, to int) {
			conn, err := net.Dial("unix", sock)
			if err != nil {
				t.Fatal(err)
			}
			// a writer that stops taking frames must not hang the harness: the files will show what is missing
			conn.SetWriteDeadline(time.Now().Add(30 * time.Second))
			conn.Write([]byte(hdr))
			for k := from; k <= to; k++ {
				if _, err := conn.Write(twFrame(k, sc.FrameSize)); err != nil {
					break
				}
			}
			conn.Close()
		}
		sendConn(1, sc.N1)
		select {
		case <-served:
		case <-time.After(20 * time.Second):
			herr = "first handleConn did not return"
		}
		if d := time.Duration(sc.GapMs)*time.Millisecond - time.Since(t0); d > 0 {
			time.Sleep(d)
		}
		mu.Lock()
		second = true
		mu.Unlock()
		sendConn(sc.N1+1, sc.N1+sc.N2)
		select {
		case <-served:
		case <-time.After(20 * time.Second):
			herr = "second handleConn did not return"
		}
		exited := false
		for i := 0; i < 6000; i++ {
			mu.Lock()
			exited = exits >= 2
			mu.Unlock()
			if exited {
				break
			}
			time.Sleep(5 * time.Millisecond)
		}
		l.Close()
		names, _ := filepath.Glob(filepath.Join(dir, "*.cptr"))
		sort.Strings(names)
		files := []twFile{}
		want := map[string]string{"model": "lepton3", "brand": "flir", "device": "verif-dev", "deviceid": "5", "resx": "16", "resy": "12", "fps": "9"}
		for _, n := range names {
			files = append(files, twParse(n, sc.FrameSize, want))
		}
		enc.Encode(map[string]interface{}{"ev": "twrun", "script": si, "mode": "reconnect", "framesize": sc.FrameSize,
			"nframes": sc.N1 + sc.N2, "complete": sc.N1 + sc.N2, "files": files, "exited": exited, "panicked": panicked,
			"races": 0, "infeasible": "", "herr": herr, "backlog": overlap})
		verifHook = nil
		if !exited {
			os.Exit(3)
		}
	}
}
