//go:build verif

package main

import (
	"encoding/json"
	"os"
	"testing"
)

// TestVerifConsts reports the protocol constants this binary is compiled with.
func TestVerifConsts(t *testing.T) {
	out := os.Getenv("VERIF_OUT")
	if out == "" {
		t.Skip("driver only")
	}
	b, _ := json.Marshal(vcConsts())
	os.WriteFile(out, b, 0644)
}

func vcConsts() map[string]interface{} {
	return map[string]interface{}{"ev": "const", "bin": "thermal-writer", "magic": thermalRawMagic, "version": int(thermalRawVersion),
		"header_section": string(rune(headerSection)), "frame_section": string(rune(frameSection))}
}
