------------------------------ MODULE Detector ------------------------------
(***************************************************************************)
(* Code-shaped specification of motion/motion.go (motionDetector).         *)
(* Frames are h x w matrices (sequences of rows); the loops run over       *)
(* start..rowStop x start..columnStop exactly as in the code (1-based      *)
(* here).  State mirrors the Go fields that carry behaviour:               *)
(*   fl*   the ring of "floored" frames, capacity gap+1, with its own      *)
(*         set-as-oldest mark (motion/frameloop.go arithmetic)             *)
(*   df*   the two diff frames, firstDiff, affectedByFCC (prevFFC)         *)
(*   bg, bgw, bgFrames, thresh   background estimate, per-pixel weights    *)
(*         (in tenths: the code adds float32 0.1), frame counter, tempThresh*)
(* One action per call: Detect(f, affected) and Reset.                     *)
(* Deviations kept explicit:                                               *)
(*   MeanOf  exact rational mean, floor; the code accumulates float64      *)
(*           (conformance allows +-1)                                      *)
(*   the weight test 10*(new-bg) < k is exact; at equality with k > 0      *)
(*   float32 rounding decides per pixel (conformance allows any subset)    *)
(*   FixedCode: TRUE = after the "fix:" commits for the threshold clamp    *)
(*           and the first-frame mean; FALSE = pinned commit               *)
(***************************************************************************)
EXTENDS Integers, Sequences, FiniteSets, TLC

VARIABLES dc,                                  \* configuration record (fixed per run / per trace)
          flCur, flFull, flOld, flSlots,       \* floored ring
          dfCur, dfSlots,                      \* diff ring (2 slots)
          firstDiff, prevFFC,
          bg, bgw, bgFrames, thresh,
          motion                               \* result of the last Detect

dvars == <<dc, flCur, flFull, flOld, flSlots, dfCur, dfSlots, firstDiff, prevFFC, bg, bgw, bgFrames, thresh, motion>>

NoOld == -1
DMin(a, b) == IF a < b THEN a ELSE b
DMax(a, b) == IF a > b THEN a ELSE b

Rows(c) == (c.edge + 1)..(c.h - c.edge)         \* start..rowStop-1, 1-based
Cols(c) == (c.edge + 1)..(c.w - c.edge)
Interior(c) == {<<y, x>> : y \in Rows(c), x \in Cols(c)}
AllPos(c) == {<<y, x>> : y \in 1..c.h, x \in 1..c.w}
Zero(c) == [y \in 1..c.h |-> [x \in 1..c.w |-> 0]]
NPix(c) == Cardinality(Interior(c))

Clamp(v, t) == IF v < t THEN t ELSE v
Diff(a, b, warmer) == IF a >= b THEN a - b ELSE IF warmer THEN 0 ELSE b - a

(* nearest interior position (border replication of the background) *)
Near(c, p) == <<DMin(DMax(p[1], c.edge + 1), c.h - c.edge), DMin(DMax(p[2], c.edge + 1), c.w - c.edge)>>

SumOver(S, F(_)) ==
  LET RECURSIVE Acc(_)
      Acc(T) == IF T = {} THEN 0 ELSE LET p == CHOOSE q \in T : TRUE IN F(p) + Acc(T \ {p})
  IN Acc(S)
MeanOf(c, b) == SumOver(Interior(c), LAMBDA p : b[p[1]][p[2]]) \div NPix(c)

(* calculateThreshold *)
ClampMean(c, avg) ==
  LET lo == IF c.tmin # 0 THEN DMax(avg, c.tmin) ELSE avg
  IN IF c.tmax # 0 THEN DMin(lo, c.tmax) ELSE lo
LegacyClamp(c, avg) ==                          \* pinned commit: max applied to the unclamped mean
  IF c.tmax # 0 THEN DMin(avg, c.tmax) ELSE IF c.tmin # 0 THEN DMax(avg, c.tmin) ELSE avg

DInitWith(c) ==
  /\ dc = c
  /\ flCur = 0 /\ flFull = FALSE /\ flOld = 0 /\ flSlots = [i \in 0..c.gap |-> Zero(c)]
  /\ dfCur = 0 /\ dfSlots = [i \in 0..1 |-> Zero(c)]
  /\ firstDiff = FALSE /\ prevFFC = FALSE
  /\ bg = Zero(c) /\ bgw = Zero(c) /\ bgFrames = 0 /\ thresh = c.T
  /\ motion = FALSE

(* "strict let": binding through a singleton set (and TLCEval for lazily represented matrices) makes TLC    *)
(* evaluate an expression once instead of once per reference.                                              *)
DOnly(S) == CHOOSE r \in S : TRUE

(* pixels at which float32 rounding decides the weight test (10*(new-bg) = k tenths with k > 0): the code's      *)
(* float32(new) - weight is rounded depending on the magnitude of new, so every such pixel may go either way     *)
TiePix(c, f) == {p \in Interior(c) : bgw[p[1]][p[2]] > 0 /\ 10 * (f[p[1]][p[2]] - bg[p[1]][p[2]]) = bgw[p[1]][p[2]]}

(* updateBackground: returns <<bg', bgw', avg, changed>>;  ties = the tie pixels that are lowered *)
UpdateBg(c, f, pFFC, ties) ==
  IF bgFrames = 0
  THEN DOnly({ <<nb, bgw, IF c.fixedCode THEN MeanOf(c, nb) ELSE 0, TRUE>> :
               nb \in {TLCEval([y \in 1..c.h |-> [x \in 1..c.w |-> LET n == Near(c, <<y, x>>) IN f[n[1]][n[2]]]])} })
  ELSE DOnly({
         DOnly({ <<nb, nw, MeanOf(c, nb), low # {}>> :
                 nb \in {TLCEval([y \in 1..c.h |-> [x \in 1..c.w |->
                            LET n == Near(c, <<y, x>>) IN IF n \in low THEN f[n[1]][n[2]] ELSE bg[n[1]][n[2]]]])},
                 nw \in {TLCEval([y \in 1..c.h |-> [x \in 1..c.w |->
                            IF <<y, x>> \in Interior(c) THEN (IF <<y, x>> \in low THEN 0 ELSE bgw[y][x] + 1)
                            ELSE bgw[y][x]]])} })
         : low \in {TLCEval({p \in Interior(c) :
                       pFFC \/ 10 * (f[p[1]][p[2]] - bg[p[1]][p[2]]) < bgw[p[1]][p[2]] \/ p \in ties})} })

(* Detect(frame): aff = isAffectedByFFC(frame); TieSets and slop resolve the two float deviations: TieSets(tp) is   *)
(* the set of candidate subsets of the tie pixels tp that are lowered (design runs: none; conformance: the subset *)
(* read off the logged background - the code's float32 subtraction decides each tie pixel by its magnitude)       *)
NoTies(tp) == {{}}
Detect(f, aff, TieSets(_), slop) ==
  LET c == dc
      upd == c.dyn /\ ~aff
      cap == c.gap + 1
      c1 == (flCur + 1) % cap
      tp == IF upd /\ bgFrames > 0 THEN TiePix(c, f) ELSE {}
  IN \E ties \in TieSets(tp) :
     \E ub \in {IF upd THEN UpdateBg(c, f, prevFFC, ties) ELSE <<bg, bgw, 0, FALSE>>} :
     \E th1 \in {IF upd /\ ub[4] /\ bgFrames + 1 > c.preview
                 THEN (IF c.fixedCode THEN ClampMean(c, ub[3] + slop) ELSE LegacyClamp(c, ub[3] + slop))
                 ELSE thresh} :
     \* pixelsChanged: the floored frame goes into the current slot, compared with Oldest()
     \E cmpF \in {IF flOld # NoOld THEN (IF flOld = flCur THEN f ELSE flSlots[flOld])
                  ELSE flSlots[(flCur + 1) % cap]} :
     \E d \in {TLCEval([y \in 1..c.h |-> [x \in 1..c.w |->
                  IF <<y, x>> \in Interior(c) THEN Diff(Clamp(f[y][x], th1), Clamp(cmpF[y][x], th1), c.warmer)
                  ELSE dfSlots[dfCur][y][x]]])} :
     \E prevD \in {dfSlots[1 - dfCur]} :
     \E ffcBranch \in {firstDiff /\ (aff \/ prevFFC)} :
     \E cnt \in {IF c.one THEN Cardinality({p \in Interior(c) : d[p[1]][p[2]] > c.delta})
                 ELSE Cardinality({p \in Interior(c) : d[p[1]][p[2]] > c.delta /\ prevD[p[1]][p[2]] > c.delta})} :
     \E old1 \in {IF ffcBranch THEN flCur ELSE flOld} :          \* SetAsOldest before the deferred Move
     /\ bg' = ub[1] /\ bgw' = ub[2] /\ bgFrames' = (IF upd THEN bgFrames + 1 ELSE bgFrames)
     /\ thresh' = th1
     /\ prevFFC' = aff
     /\ flSlots' = [flSlots EXCEPT ![flCur] = f] /\ flCur' = c1 /\ flFull' = (flFull \/ c1 = 0)
     /\ flOld' = (IF c1 = old1 THEN NoOld ELSE old1)
     /\ dfSlots' = [dfSlots EXCEPT ![dfCur] = d] /\ dfCur' = 1 - dfCur
     /\ firstDiff' = (IF ~firstDiff THEN TRUE ELSE ~ffcBranch)
     /\ motion' = (firstDiff /\ ~ffcBranch /\ cnt >= c.cnt)
     /\ UNCHANGED dc

DReset ==
  /\ bgFrames' = 0 /\ flCur' = 0 /\ flOld' = 0 /\ flFull' = FALSE /\ dfCur' = 0
  /\ motion' = FALSE
  /\ UNCHANGED <<dc, flSlots, dfSlots, firstDiff, prevFFC, bg, bgw, thresh>>
=============================================================================
