----------------------------- MODULE RingReplay -----------------------------
EXTENDS FrameLoop, Json
CONSTANT CCap
VARIABLE ev
RInit == Init /\ cap = CCap /\ ev = "init"
RNext == \/ Write /\ ev' = ToJson([a |-> "write"])
         \/ Move  /\ ev' = ToJson([a |-> "move"])
         \/ Mark  /\ ev' = ToJson([a |-> "mark"])
         \/ Reset /\ ev' = ToJson([a |-> "reset"])
=============================================================================
