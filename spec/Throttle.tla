------------------------------ MODULE Throttle ------------------------------
(***************************************************************************)
(* Code-shaped specification of throttle/throttled_recorder.go on top of   *)
(* the token bucket of juju/ratelimit as it is used there (Available,      *)
(* TakeAvailable(1); quantum 1; fill interval K time units).               *)
(* Time is relative: `phase` within a fill interval and `behind` = ticks   *)
(* between the bucket's latestTick and now (capped at Cap+1, more cannot   *)
(* matter).  Quirk = TRUE is ratelimit v1.0.1 (adjust returns early while   *)
(* the bucket is full, leaving latestTick stale); FALSE is the corrected   *)
(* library.  Both are explored.                                            *)
(* The upstream is a well-formed client (the MotionProcessor): start only  *)
(* when it has no recording, write/stop only after a start returned nil.   *)
(***************************************************************************)
EXTENDS Integers, Sequences, FiniteSets

CONSTANTS CCap, CMinLen, CK, Quirks, Steps

VARIABLES Cap, MinLen, K,                  \* configuration (fixed in Init; variables so that trace
                                           \* validation can load a new configuration per trace)
          quirk, phase, behind, avail,     \* bucket
          recording,                       \* ThrottledRecorder.recording
          upOpen,                          \* the client believes it is recording
          ev                               \* observable record of the last call

tvars == <<Cap, MinLen, K, quirk, phase, behind, avail, recording, upOpen, ev>>

SMin(a, b) == IF a < b THEN a ELSE b
BCall(op, ok) == [op |-> op, ok |-> ok, same |-> TRUE]
NoEv == [op |-> "init", dt |-> 0, base |-> <<>>, nev |-> 0, err |-> FALSE]

Init == /\ Cap = CCap /\ MinLen = CMinLen /\ K = CK
        /\ quirk \in Quirks /\ phase = 0 /\ behind = 0 /\ avail = Cap
        /\ recording = FALSE /\ upOpen = FALSE /\ ev = NoEv

(* bucket.adjustavailableTokens after d time units have passed: <<avail, behind>> *)
Adj(d) == LET b == SMin(Cap + 1, behind + ((phase + d) \div K))
          IN IF avail >= Cap THEN <<avail, IF quirk THEN b ELSE 0>>
             ELSE <<SMin(Cap, avail + b), 0>>
Pass(d) == /\ phase' = (phase + d) % K /\ UNCHANGED <<Cap, MinLen, K>>

UpStart(d, ok) ==          \* StartRecording -> maybeStartRecording
  /\ ~upOpen /\ Pass(d)
  /\ LET a == Adj(d) IN
     /\ avail' = a[1] /\ behind' = a[2]
     /\ IF a[1] >= MinLen
        THEN /\ recording' = ok /\ upOpen' = ok
             /\ ev' = [op |-> "start", dt |-> d, base |-> <<BCall("start", ok)>>, nev |-> 0, err |-> ~ok]
        ELSE /\ recording' = FALSE /\ upOpen' = TRUE
             /\ ev' = [op |-> "start", dt |-> d, base |-> <<>>, nev |-> 1, err |-> FALSE]
  /\ UNCHANGED quirk

UpWrite(d, ok, sok) ==     \* WriteFrame (sok: result of the storage StopRecording if the file is cut here)
  /\ upOpen /\ Pass(d)
  /\ LET a == Adj(d)
         restart == ~recording /\ a[1] >= MinLen
     IN IF ~recording /\ ~restart
        THEN /\ avail' = a[1] /\ behind' = a[2] /\ recording' = FALSE
             /\ ev' = [op |-> "w", dt |-> d, base |-> <<>>, nev |-> 0, err |-> FALSE]
        ELSE IF restart /\ ~ok
        THEN /\ avail' = a[1] /\ behind' = a[2] /\ recording' = FALSE
             /\ ev' = [op |-> "w", dt |-> d, base |-> <<BCall("start", FALSE)>>, nev |-> 0, err |-> TRUE]
        ELSE LET pre == IF restart THEN <<BCall("start", TRUE)>> ELSE <<>>
             IN /\ behind' = a[2]
                /\ IF a[1] > 0
                   THEN /\ avail' = a[1] - 1 /\ recording' = TRUE
                        /\ ev' = [op |-> "w", dt |-> d, base |-> pre \o <<BCall("w", TRUE)>>, nev |-> 0, err |-> FALSE]
                   ELSE /\ avail' = a[1] /\ recording' = FALSE
                        /\ ev' = [op |-> "w", dt |-> d, base |-> pre \o <<BCall("stop", sok)>>, nev |-> 1, err |-> ~sok]
  /\ UNCHANGED <<quirk, upOpen>>

UpStop(d, sok) ==          \* StopRecording: the file is over whether or not storage reports an error
  /\ upOpen /\ Pass(d)
  /\ behind' = SMin(Cap + 1, behind + ((phase + d) \div K))
  /\ ev' = [op |-> "stop", dt |-> d, base |-> (IF recording THEN <<BCall("stop", sok)>> ELSE <<>>), nev |-> 0,
            err |-> (recording /\ ~sok)]
  /\ recording' = FALSE /\ upOpen' = FALSE
  /\ UNCHANGED <<quirk, avail>>

Next == \E d \in Steps : \/ \E ok \in BOOLEAN : UpStart(d, ok)
                         \/ \E ok \in (IF recording THEN {TRUE} ELSE BOOLEAN), sok \in BOOLEAN : UpWrite(d, ok, sok)
                         \/ \E sok \in (IF recording THEN BOOLEAN ELSE {TRUE}) : UpStop(d, sok)

TypeOK == avail \in 0..Cap /\ behind \in 0..(Cap + 1) /\ phase \in 0..(K - 1)
=============================================================================
