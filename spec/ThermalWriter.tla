---------------------------- MODULE ThermalWriter ----------------------------
(***************************************************************************)
(* cmd/thermal-writer/main.go: handleConn (the socket reader) and writer() *)
(* (the disk writer) share a pool of Pool buffers through two buffered     *)
(* channels: spentFrames (free buffers) and writeFrames (filled buffers).  *)
(* One action per step between two hook points of the code:                *)
(*   reader: Take (frame := <-spentFrames), Fill1 / Fill2 (io.ReadFull     *)
(*           copies the frame as its bytes arrive: two halves), Send       *)
(*           (writeFrames <- frame), Eof (ReadFull fails - possibly with   *)
(*           half a frame read - and close(writeFrames))                   *)
(*   writer: Recv, Write (writeFrame copies the buffer into the file's     *)
(*           bufio: two halves W1, W2), Return (outFrames <- frame),       *)
(*           Rotate (newFileInterval: close, new file), FinalClose         *)
(* EarlyReturn = TRUE is the mutation "return the buffer before writing".  *)
(***************************************************************************)
EXTENDS Integers, Sequences, FiniteSets

CONSTANTS Pool, NF, MaxRot, EarlyReturn

VARIABLES spent, writeq, closed,        \* channels; closed = close(writeFrames) happened
          bufA, bufB,                   \* two halves of every pool buffer (frame id stored in each)
          rpc, rbuf, rk,                \* reader: pc, buffer held, next frame id
          halfSent,                     \* the sender stopped in the middle of frame rk (connection cut there)
          wpc, wbuf, wa,                \* writer: pc, buffer held, first half copied
          files, fopen,                 \* closed files, the open file (sequence of <<a, b>>)
          done                          \* frames completely read by the reader

tvars == <<spent, writeq, closed, bufA, bufB, rpc, rbuf, rk, halfSent, wpc, wbuf, wa, files, fopen, done>>

Init == /\ spent = [i \in 1..Pool |-> i] /\ writeq = <<>> /\ closed = FALSE
        /\ bufA = [b \in 1..Pool |-> 0] /\ bufB = [b \in 1..Pool |-> 0]
        /\ rpc = "take" /\ rbuf = 0 /\ rk = 1 /\ halfSent \in BOOLEAN
        /\ wpc = "recv" /\ wbuf = 0 /\ wa = 0
        /\ files = <<>> /\ fopen = <<>> /\ done = 0

(* ---------------- reader ---------------- *)
Take  == /\ rpc = "take" /\ Len(spent) > 0
         /\ rbuf' = Head(spent) /\ spent' = Tail(spent) /\ rpc' = "fill1"
         /\ UNCHANGED <<writeq, closed, bufA, bufB, rk, halfSent, wpc, wbuf, wa, files, fopen, done>>
Fill1 == /\ rpc = "fill1" /\ rk <= NF
         /\ bufA' = [bufA EXCEPT ![rbuf] = rk] /\ rpc' = "fill2"
         /\ UNCHANGED <<spent, writeq, closed, bufB, rbuf, rk, halfSent, wpc, wbuf, wa, files, fopen, done>>
Fill2 == /\ rpc = "fill2" /\ ~(halfSent /\ rk = NF)
         /\ bufB' = [bufB EXCEPT ![rbuf] = rk] /\ done' = rk /\ rpc' = "send"
         /\ UNCHANGED <<spent, writeq, closed, bufA, rbuf, rk, halfSent, wpc, wbuf, wa, files, fopen>>
Send  == /\ rpc = "send" /\ Len(writeq) < Pool
         /\ writeq' = Append(writeq, rbuf) /\ rk' = rk + 1 /\ rbuf' = 0 /\ rpc' = "take"
         /\ UNCHANGED <<spent, closed, bufA, bufB, halfSent, wpc, wbuf, wa, files, fopen, done>>
Eof   == /\ \/ (rpc = "fill1" /\ rk > NF)                       \* connection closed between frames
            \/ (rpc = "fill2" /\ halfSent /\ rk = NF)           \* ... or in the middle of the last frame
         /\ closed' = TRUE /\ rpc' = "done"
         /\ UNCHANGED <<spent, writeq, bufA, bufB, rbuf, rk, halfSent, wpc, wbuf, wa, files, fopen, done>>

(* ---------------- writer ---------------- *)
Recv  == /\ wpc = "recv" /\ Len(writeq) > 0
         /\ wbuf' = Head(writeq) /\ writeq' = Tail(writeq)
         /\ wpc' = "w1"
         /\ spent' = IF EarlyReturn THEN Append(spent, Head(writeq)) ELSE spent
         /\ UNCHANGED <<closed, bufA, bufB, rpc, rbuf, rk, halfSent, wa, files, fopen, done>>
W1    == /\ wpc = "w1" /\ wa' = bufA[wbuf] /\ wpc' = "w2"
         /\ UNCHANGED <<spent, writeq, closed, bufA, bufB, rpc, rbuf, rk, halfSent, wbuf, files, fopen, done>>
W2    == /\ wpc = "w2" /\ fopen' = Append(fopen, <<wa, bufB[wbuf]>>) /\ wpc' = "ret"
         /\ UNCHANGED <<spent, writeq, closed, bufA, bufB, rpc, rbuf, rk, halfSent, wbuf, wa, files, done>>
Return == /\ wpc = "ret"
          /\ spent' = IF EarlyReturn THEN spent ELSE Append(spent, wbuf)
          /\ wbuf' = 0 /\ wpc' = "recv"
          /\ UNCHANGED <<writeq, closed, bufA, bufB, rpc, rbuf, rk, halfSent, wa, files, fopen, done>>
Rotate == /\ wpc = "recv" /\ Len(files) < MaxRot
          /\ files' = Append(files, fopen) /\ fopen' = <<>>
          /\ UNCHANGED <<spent, writeq, closed, bufA, bufB, rpc, rbuf, rk, halfSent, wpc, wbuf, wa, done>>
FinalClose == /\ wpc = "recv" /\ Len(writeq) = 0 /\ closed
              /\ files' = Append(files, fopen) /\ fopen' = <<>> /\ wpc' = "done"
              /\ UNCHANGED <<spent, writeq, closed, bufA, bufB, rpc, rbuf, rk, halfSent, wbuf, wa, done>>

Reader == Take \/ Fill1 \/ Fill2 \/ Send \/ Eof
Writer == Recv \/ W1 \/ W2 \/ Return \/ Rotate \/ FinalClose
Next == Reader \/ Writer
Spec == Init /\ [][Next]_tvars /\ WF_tvars(Reader) /\ WF_tvars(Recv \/ W1 \/ W2 \/ Return \/ FinalClose)

(* ---------------- C18 ---------------- *)
RECURSIVE Cat(_)
Cat(fs) == IF fs = <<>> THEN <<>> ELSE Head(fs) \o Cat(Tail(fs))
Stored == Cat(files) \o fopen
Range(s) == {s[i] : i \in DOMAIN s}
NoAlias == (rpc \in {"fill1", "fill2", "send"}) => (rbuf \notin Range(writeq) /\ rbuf # wbuf /\ rbuf \notin Range(spent))
Intact  == \A i \in DOMAIN Stored : Stored[i][1] = Stored[i][2]
InOrder == \A i \in DOMAIN Stored : Stored[i][1] = i /\ i <= done
FlushAtEnd == wpc = "done" => (Len(Stored) = done /\ fopen = <<>>)
PoolConserved == ~EarlyReturn => Len(spent) + Len(writeq) + (IF rbuf # 0 THEN 1 ELSE 0) + (IF wbuf # 0 THEN 1 ELSE 0) = Pool
Terminates == <>(wpc = "done" /\ rpc = "done")
=============================================================================
