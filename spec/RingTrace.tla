----------------------------- MODULE RingTrace -----------------------------
(***************************************************************************)
(* Traces of the real motion.FrameLoop (exported API, frames tagged in a   *)
(* pixel) judged by TLC: after every operation the logged answers of       *)
(* GetHistory / Oldest / CopyRecent / Current must equal (a) what C19      *)
(* promises (declarative operators; mismatch = VIOL) and (b) what the      *)
(* code-shaped model computes (mismatch = DRIFT).                          *)
(***************************************************************************)
EXTENDS FrameLoop, Json, TLC

VARIABLE l
Trace == ndJsonDeserialize("trace.ndjson")

TInit == l = 1 /\ Init /\ cap = 1

Judge(E) ==
  LET v == (IF written' /\ E.hist # DeclHistoryOf(cap', done', curTag', markDone') THEN {"C19:history"} ELSE {})
           \cup (IF written' /\ E.oldest # DeclOldestOf(cap', done', curTag', markDone') THEN {"C19:oldest"} ELSE {})
           \cup (IF RecentHeld' /\ E.recent # done'[Len(done')] THEN {"C19:recent"} ELSE {})
           \cup (IF written' /\ E.cur # curTag' THEN {"C19:current"} ELSE {})
      d == (IF written' /\ E.hist # CodeHistory' THEN {"DRIFT:history"} ELSE {})
           \cup (IF written' /\ E.oldest # CodeOldest' THEN {"DRIFT:oldest"} ELSE {})
           \cup (IF E.recent # CodeRecent' THEN {"DRIFT:recent"} ELSE {})
  IN /\ (IF v = {} THEN TRUE ELSE PrintT(<<"VIOL", l, v>>))
     /\ (IF d = {} THEN TRUE ELSE PrintT(<<"VIOL", l, d>>))

TNext == /\ l <= Len(Trace) /\ l' = l + 1
         /\ \E E \in {Trace[l]} :
            CASE E.ev = "new"   -> /\ cap' = E.cap /\ cur' = 0 /\ full' = FALSE /\ oldest' = 0
                                   /\ slots' = [i \in 0..(MaxCap - 1) |-> 0] /\ written' = FALSE
                                   /\ done' = <<>> /\ curTag' = 0 /\ markDone' = 0 /\ tag' = 1
              [] E.ev = "write" -> /\ slots' = [slots EXCEPT ![cur] = E.tag] /\ curTag' = E.tag /\ written' = TRUE
                                   /\ tag' = E.tag + 1
                                   /\ UNCHANGED <<cap, cur, full, oldest, done, markDone>> /\ Judge(E)
              [] E.ev = "move"  -> (IF written THEN Move ELSE UNCHANGED rvars) /\ Judge(E)
              [] E.ev = "mark"  -> Mark /\ Judge(E)
              [] E.ev = "reset" -> Reset /\ Judge(E)
              [] E.ev = "conc"  -> \* concurrent use, the FrameLoop's own locking: a producer that fills Current() and moves on, as
                                   \* the frame loop does, while CopyRecent is called from another goroutine.  Every copy must be
                                   \* one whole frame of the history (`torn` counts copies mixing two frames), and the frame that
                                   \* was the one before the current one at some moment of the call (`stale`: outside the moves
                                   \* counted before and after the call).
                                   /\ UNCHANGED rvars
                                   /\ (IF E.torn = 0 /\ E.stale = 0 THEN TRUE
                                       ELSE PrintT(<<"VIOL", l, (IF E.torn > 0 THEN {"C19:recent-mixes-two-frames[concurrent-move]"} ELSE {})
                                                                \cup (IF E.stale > 0 THEN {"C19:recent-not-the-frame-before-current[concurrent-move]"} ELSE {})>>))
              [] E.ev = "panic" -> /\ UNCHANGED rvars       \* a query or operation of the real ring panicked (rest of the script dropped)
                                   /\ PrintT(<<"VIOL", l, {"C19:panic"}>>)
Consumed == TLCGet("stats").diameter - 1 = Len(Trace)
=============================================================================
