------------------------------ MODULE SnapTrace ------------------------------
(***************************************************************************)
(* C16 observer over end-to-end runs of the daemon with concurrent service *)
(* requests (TakeSnapshot / TakeTestRecording / CameraInfo issued on their *)
(* own goroutines while frames stream and the camera reconnects):          *)
(*  snap   a returned image: the set of pixel values it contains (frames   *)
(*         are sent uniform-valued, so a mixture of two frames shows as    *)
(*         two values) and `lb`, the value of the latest frame that had    *)
(*         certainly been processed on that connection when the request    *)
(*         was made: whole frame, and that frame or a newer one            *)
(*  info   CameraInfo reply vs. the header that was sent                   *)
(*  race   a Go race detector report (-race build), keyed by the two       *)
(*         functions involved = an access pair that Snapshot.tla's NoRace  *)
(*         forbids                                                         *)
(*  reqpair  the same frame / fault script through the real processor and  *)
(*         three real CPTV recorders with and without its test-recording   *)
(*         requests (storage failing around some of them): the requests    *)
(*         neither crash the pipeline nor change any motion recording      *)
(*  pipeline  the frames the continuous recorder stored vs. the frames     *)
(*         sent (a request must not corrupt or stall processing)           *)
(***************************************************************************)
EXTENDS Integers, Sequences, FiniteSets, Json, TLC
VARIABLE l
Trace == ndJsonDeserialize("trace.ndjson")
TInit == l = 1
TNext == /\ l <= Len(Trace) /\ l' = l + 1
         /\ \E E \in {Trace[l]} :
            \E v \in { CASE E.ev = "snap" ->
                          (IF Len(E.values) # 1 THEN {"C16:snapshot-mixes-frames"} ELSE {})
                          \cup (IF Len(E.values) = 1 /\ E.lb > 0 /\ E.values[1] < E.lb THEN {"C16:snapshot-older-than-last-completed-frame"} ELSE {})
                          \cup (IF Len(E.values) = 1 /\ E.values[1] # 0 /\ E.values[1] \notin {E.sent[i] : i \in DOMAIN E.sent}
                                THEN {"C16:snapshot-is-not-a-received-frame"} ELSE {})
                        [] E.ev = "race" -> {"C16:data-race[" \o E.pair \o "]"}
                        [] E.ev = "info" -> (IF E.ok THEN {} ELSE {"C16:camera-info-inconsistent"})
                        [] E.ev = "pipeline" -> (IF E.stored # E.expected THEN {"C16:pipeline-disturbed"} ELSE {})
                                                  \cup (IF E.holes # <<>> THEN {"C16:pipeline-skips-frames-under-requests"} ELSE {})
                        [] E.ev = "reqpair" ->
                          (IF E.panic_with /\ ~E.panic_without THEN {"C16:request-crashes-pipeline"} ELSE {})
                          \* after every accepted frame of those scripts the driver asked the processor for the frame a snapshot
                          \* would return (GetRecentFrame): it must be the frame just processed, storage failing or not
                          \cup (IF E.stale > 0 THEN {"C16:snapshot-older-than-last-completed-frame[storage-failing]"} ELSE {})
                          \cup (IF ~E.panic_with /\ ~E.panic_without /\
                                   (\E i \in DOMAIN E.without : \A j \in DOMAIN E.with : E.with[j] # E.without[i])
                                THEN {"C16:request-changes-recordings"} ELSE {})
                        [] E.ev = "reqerr" -> {"C16:request-failed"}
                        [] E.ev = "crash" -> {"C16:daemon-crashed"}
                        [] OTHER -> {} } :
               IF v = {} THEN TRUE ELSE PrintT(<<"VIOL", l, v>>)
Consumed == TLCGet("stats").diameter - 1 = Len(Trace)
=============================================================================
