------------------------------ MODULE DetCheck ------------------------------
(***************************************************************************)
(* Design check of Detector.tla on tiny frames: for every configuration in *)
(* Cfgs, every frame sequence over Vals (interior) up to MaxLen, FFC flags *)
(* and resets anywhere:                                                    *)
(*  C07  Detect = the declarative rule (reference frame max(first, i-gap), *)
(*       clamp at the threshold, abs/warmer, one/two diff, count)          *)
(*  C09  no motion on an FFC-affected frame nor on the frame after one;    *)
(*       the compare reference is never older than the first affected      *)
(*       frame of the last FFC period / the last reset                     *)
(*  C15  background envelope, border replication, reseed after FFC/reset,  *)
(*       threshold = clamped mean whenever it changes                      *)
(***************************************************************************)
EXTENDS Detector, TLC

CONSTANTS W, H, E, Vals, BorderVal, MaxLen, Cfgs, WithFFC, MaxResets

VARIABLES hist,        \* frames since start/reset: sequence of [f, aff]
          everAff,     \* an FFC-affected frame has been seen (C07 speaks about FFC-free streams)
          lastThresh,  \* threshold before the last step
          nres         \* resets so far (bounded by MaxResets)

cvars == <<dvars, hist, everAff, lastThresh, nres>>

Geo == [w |-> W, h |-> H, edge |-> E]
FrameOf(vs) ==     \* vs: function from Interior to Vals
  [y \in 1..H |-> [x \in 1..W |-> IF <<y, x>> \in Interior(Geo) THEN vs[<<y, x>>] ELSE BorderVal]]
Frames == {FrameOf(vs) : vs \in [Interior(Geo) -> Vals]}

CInit == /\ \E c \in Cfgs : DInitWith(c)
         /\ hist = <<>> /\ everAff = FALSE /\ lastThresh = 0 /\ nres = 0

CDetect == /\ Len(hist) < MaxLen
           /\ \E f \in Frames : \E aff \in (IF WithFFC THEN BOOLEAN ELSE {FALSE}) :
                /\ Detect(f, aff, NoTies, 0)
                /\ hist' = Append(hist, [f |-> f, aff |-> aff])
                /\ everAff' = (everAff \/ aff)
                /\ lastThresh' = thresh /\ UNCHANGED nres
CReset == /\ nres < MaxResets /\ hist # <<>> /\ DReset /\ hist' = <<>> /\ nres' = nres + 1
          /\ UNCHANGED <<everAff, lastThresh>>
CNext == CDetect \/ CReset

(* ------------------------------ C07 ------------------------------ *)
Ref(i) == DMax(1, i - dc.gap)
DSet(i) == IF i < 1 THEN {}
           ELSE {p \in Interior(dc) : Diff(Clamp(hist[i].f[p[1]][p[2]], dc.T), Clamp(hist[Ref(i)].f[p[1]][p[2]], dc.T), dc.warmer) > dc.delta}
DeclMotion == LET i == Len(hist)
                  n == IF dc.one THEN Cardinality(DSet(i)) ELSE Cardinality(DSet(i) \cap DSet(i - 1))
              IN i >= 2 /\ n >= dc.cnt
(* the very first frame after start-up never reports motion; after a reset the first frame is compared with itself *)
C07 == (~dc.dyn /\ ~everAff /\ hist # <<>>) => (motion = DeclMotion)

(* ------------------------------ C09 ------------------------------ *)
C09Suppress == hist # <<>> =>
                 LET i == Len(hist) IN (hist[i].aff \/ (i >= 2 /\ hist[i - 1].aff)) => ~motion

(* ------------------------------ C15 ------------------------------ *)
LastF == hist[Len(hist)].f
Envelope == (dc.dyn /\ hist # <<>> /\ ~hist[Len(hist)].aff) =>
              \A p \in Interior(dc) : bg[p[1]][p[2]] <= LastF[p[1]][p[2]]
BorderRep == (dc.dyn /\ bgFrames >= 1) =>
              \A p \in AllPos(dc) : bg[p[1]][p[2]] = bg[Near(dc, p)[1]][Near(dc, p)[2]]
Reseed == (dc.dyn /\ hist # <<>> /\ ~hist[Len(hist)].aff /\
           (bgFrames = 1 \/ (Len(hist) >= 2 /\ hist[Len(hist) - 1].aff))) =>
              \A p \in Interior(dc) : bg[p[1]][p[2]] = LastF[p[1]][p[2]]
ThreshRule == (dc.dyn /\ hist # <<>> /\ thresh # lastThresh) => thresh = ClampMean(dc, MeanOf(dc, bg))
ThreshRange == dc.dyn => \/ thresh = dc.T
                         \/ /\ (dc.tmin # 0 => thresh >= dc.tmin)
                            /\ (dc.tmax # 0 /\ dc.tmax >= dc.tmin => thresh <= dc.tmax)
ThreshFixed == ~dc.dyn => thresh = dc.T
=============================================================================
