------------------------------ MODULE FileTrace ------------------------------
(***************************************************************************)
(* (a) conformance: the file-system calls of the real CPTVFileRecorder     *)
(*     (from strace, classified by name suffix) must be a behaviour of     *)
(*     FileRecorder.tla; FinalsComplete is evaluated after every call,     *)
(*     i.e. at every crash point between and inside start/write/stop.      *)
(* (b) observer for C10 over what was found on disk: after a real SIGKILL  *)
(*     at a chosen call ("killrun": listing with a full decode of every    *)
(*     *.cptv, then the listing after the daemon's clean-up) and by a      *)
(*     concurrent reader ("observe").                                      *)
(***************************************************************************)
EXTENDS FileRecorder, Sequences, Json, TLC

VARIABLE l
Trace == ndJsonDeserialize("trace.ndjson")
T == Trace[l]

TInit == l = 1 /\ Init

Stutter == UNCHANGED fvars
ContentOf(k, i) == (CHOOSE f \in dir : f.kind = k /\ f.id = i).content

TSys ==
  /\ T.ev = "sys"
  /\ CASE T.op = "create" /\ T.kind = "temp" ->
            IF Has("temp", T.id) THEN (ContentOf("temp", T.id) = "empty" /\ Stutter)   \* go-cptv creates it twice
            ELSE CreateTemp /\ cur' = T.id
       [] T.op = "create" /\ T.kind = "scratch" -> CreateScratch /\ cur = T.id
       [] T.op = "write" /\ T.kind = "scratch" -> phase = "open" /\ cur = T.id /\ Stutter
       [] T.op = "write" /\ T.kind = "temp" -> cur = T.id /\ (IF phase = "open" THEN Compress1 ELSE (phase = "compressing" /\ Stutter))
       [] T.op = "close" /\ T.kind = "temp" -> IF phase = "compressing" /\ cur = T.id /\ T.last THEN Compress2 ELSE Stutter
       [] T.op = "close" /\ T.kind = "scratch" -> Stutter
       [] T.op = "unlink" /\ T.kind = "scratch" -> DeleteScratch /\ cur = T.id
       [] T.op = "unlink" /\ T.kind = "temp" -> Discard /\ cur = T.id
       [] T.op = "rename" -> Rename /\ cur = T.id
       [] T.op = "newproc" -> dir' = {} /\ cur' = 0 /\ phase' = "idle" /\ nrec' = 0 /\ alive' = TRUE /\ cleaned' = TRUE
       [] OTHER -> FALSE          \* a call the model does not know: the trace is rejected here

Bad(fs, tag) == IF fs = {} THEN {} ELSE {tag}
TMon ==
  /\ T.ev \in {"killrun", "observe", "cleankinds"}
  /\ Stutter
  /\ LET v == IF T.ev = "killrun"
              THEN Bad({i \in DOMAIN T.before : T.before[i].kind = "final" /\ ~T.before[i].decodes}, "C10:partial-file-named-cptv")
                   \cup Bad({i \in DOMAIN T.after : T.after[i].kind # "final" \/ ~T.after[i].decodes}, "C10:debris-after-cleanup")
                   \* names that were in use (the other recorder's open or finished recording) when a recording started
                   \cup (IF "reused" \in DOMAIN T /\ T.reused > 0 THEN {"C10:recording-started-under-a-name-in-use"} ELSE {})
              ELSE IF T.ev = "observe"
              THEN (IF T.decodes THEN {} ELSE {"C10:observer-saw-partial-cptv"})
              ELSE {}
     IN IF v = {} THEN TRUE ELSE PrintT(<<"VIOL", l, v>>)

TNext == l <= Len(Trace) /\ l' = l + 1 /\ (TSys \/ TMon)
Progress == TLCGet("stats").diameter - 1
Accepted == IF Progress = Len(Trace) THEN TRUE ELSE PrintT(<<"REJECTED-AT", Progress + 1>>)
=============================================================================
