---------------------------- MODULE ConfigWatch ----------------------------
(***************************************************************************)
(* Beyond the listed properties: how a changed config.toml takes effect    *)
(* (cmd/thermal-recorder/main.go, checkConfigChanges).  The daemon keeps   *)
(* the configuration it parsed at start-up; a goroutine watches the file   *)
(* (close-after-write / moved-to events, a channel of capacity 1), parses  *)
(* the file again on every event and                                        *)
(*   - logs the error and carries on if the new file does not parse,       *)
(*   - exits (systemd restarts it, the new configuration is loaded) if the *)
(*     parsed configuration differs from the one in force in anything but  *)
(*     the motion section (that section is re-read on every connection),   *)
(*   - carries on otherwise.                                               *)
(* A configuration is abstracted to [r, m, valid]: r stands for everything *)
(* that is compared (recording lengths, window, throttle, device, output   *)
(* and socket paths, location), m for the motion section.                  *)
(***************************************************************************)
EXTENDS Integers, FiniteSets
CONSTANTS RVals, MVals, MaxWrites
VARIABLES running,   \* the daemon process is alive
          inforce,   \* the configuration parsed at start-up: [r, m]
          file,      \* current content of config.toml: [r, m, valid]
          pending,   \* an fs event is queued (capacity 1: further events are dropped while one is queued)
          writes     \* number of rewrites so far (bounds the model)
vars == <<running, inforce, file, pending, writes>>

Files == [r : RVals, m : MVals, valid : BOOLEAN]
Init == /\ running = TRUE /\ pending = FALSE /\ writes = 0
        /\ \E r \in RVals, m \in MVals : inforce = [r |-> r, m |-> m] /\ file = [r |-> r, m |-> m, valid |-> TRUE]

Rewrite(f) ==          \* an editor / the management service replaces the file
  /\ writes < MaxWrites /\ writes' = writes + 1
  /\ file' = f /\ pending' = running        \* nobody listens once the daemon is gone
  /\ UNCHANGED <<running, inforce>>

Relevant == file.valid /\ file.r # inforce.r
Handle ==              \* the watcher takes the queued event and parses the file as it is NOW
  /\ running /\ pending /\ pending' = FALSE
  /\ running' = ~Relevant
  /\ UNCHANGED <<inforce, file, writes>>

Restart ==             \* systemd starts the daemon again: it parses the file as it is now
  /\ ~running /\ file.valid
  /\ running' = TRUE /\ inforce' = [r |-> file.r, m |-> file.m] /\ pending' = FALSE
  /\ UNCHANGED <<file, writes>>

Next == (\E f \in Files : Rewrite(f)) \/ Handle \/ Restart
Spec == Init /\ [][Next]_vars /\ WF_vars(Handle) /\ WF_vars(Restart)

(* A quiescent daemon (no event queued) never runs with compared settings that differ from a valid file. *)
NeverStale == running /\ ~pending => (~file.valid \/ file.r = inforce.r)
(* It exits only for a relevant change: never for an unparsable file, never for the motion section alone. *)
ExitOnlyWhenRelevant == [][running /\ ~running' => Relevant]_vars
(* A relevant change that stays in the file is eventually in force. *)
TakesEffect == \A r \in RVals : (file.valid /\ file.r = r) ~> (~(file.valid /\ file.r = r) \/ (running /\ inforce.r = r))
=============================================================================
