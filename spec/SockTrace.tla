------------------------------ MODULE SockTrace ------------------------------
(***************************************************************************)
(* C14 observer over what the real code did:                               *)
(*  hdr     a camera description encoded by the camera daemon's encoder,   *)
(*          read back by headers.ReadHeaderInfo through arbitrary read     *)
(*          segmentation: every field equal, nothing beyond the blank line *)
(*          consumed                                                       *)
(*  hdrcut  the same header truncated at every byte: never accepted        *)
(*  const   marker constants of the binaries: all equal                    *)
(*  stream  end-to-end delivery through handleConn (judged by              *)
(*          SystemTrace.tla: files predicted from the frames sent)         *)
(***************************************************************************)
EXTENDS Integers, Sequences, FiniteSets, Json, TLC
VARIABLES l, marker
Trace == ndJsonDeserialize("trace.ndjson")
Keys == {"ResX", "ResY", "FPS", "FrameSize", "Brand", "Model", "CameraSerial", "Firmware"}
TInit == l = 1 /\ marker = ""
TNext ==
  /\ l <= Len(Trace) /\ l' = l + 1
  /\ \E E \in {Trace[l]} :
       /\ marker' = (IF E.ev = "const" /\ "marker" \in DOMAIN E /\ marker = "" THEN E.marker ELSE marker)
       /\ \E v \in { CASE E.ev = "hdr" ->
                        (IF E.err THEN {"C14:valid-header-rejected"}
                         ELSE {"C14:header-field-" \o k : k \in {j \in Keys : j \in DOMAIN E.sent /\ E.parsed[j] # E.sent[j]}}
                              \cup (IF E.rest_ok THEN {} ELSE {"C14:header-stage-consumed-frame-bytes"}))
                      [] E.ev = "hdrcut" -> (IF E.accepted # <<>> THEN {"C14:truncated-header-accepted"} ELSE {})
                                            \cup (IF E.slow # <<>> THEN {"C14:truncated-header-hangs"} ELSE {})
                      [] E.ev = "const" -> (IF "marker" \in DOMAIN E /\ marker # "" /\ E.marker # marker THEN {"C14:daemons-disagree-on-marker"} ELSE {})
                      [] E.ev = "keys" -> (IF {E.keys[i] : i \in DOMAIN E.keys} # Keys THEN {"C14:header-keys-changed"} ELSE {})
                      [] E.ev = "e2ehdr" -> {"C14:camera-info-" \o k : k \in {j \in DOMAIN E.sent : j \notin DOMAIN E.seen \/ E.seen[j] # E.sent[j]}}
                      [] E.ev = "e2ecut" -> (IF E.reading THEN {"C14:truncated-header-accepted"} ELSE {})
                                            \cup (IF ~E.ended THEN {"C14:truncated-header-hangs"} ELSE {})
                      [] E.ev = "e2eclears" -> (IF E.sent # E.seen THEN {"C14:marker-count"} ELSE {})
                      [] OTHER -> {} } :
            IF v = {} THEN TRUE ELSE PrintT(<<"VIOL", l, v>>)
Consumed == TLCGet("stats").diameter - 1 = Len(Trace)
=============================================================================
