------------------------------- MODULE DetMon -------------------------------
(***************************************************************************)
(* Observers for the detector properties, evaluated by TLC on the pixels   *)
(* and results logged from the real motionDetector:                        *)
(*  C07  fixed threshold, FFC-free stream: reported motion = the           *)
(*       declarative rule computed here from the logged frames             *)
(*  C08  paired streams that differ only in border pixels (or, fixed       *)
(*       threshold, only below temp-thresh): same results, same interior   *)
(*       background, same threshold                                        *)
(*  C09  never motion on an FFC-affected frame or the frame after one;     *)
(*       paired histories equal since the first affected frame of an FFC   *)
(*       period that has ended (or since a reset, fixed threshold) give    *)
(*       equal results                                                     *)
(*  C15  background envelope, border replication, re-seed, threshold =     *)
(*       clamped mean (+-1 for the float accumulation) whenever it moves   *)
(* Event fields: pix (h rows of w), aff (frame within 10 s of an FFC, from *)
(* the telemetry the harness wrote), motion, bg, thresh; paired runs add   *)
(* pix2, motion2, bg2, thresh2.                                            *)
(***************************************************************************)
EXTENDS Integers, Sequences, FiniteSets

XMin(a, b) == IF a < b THEN a ELSE b
XMax(a, b) == IF a > b THEN a ELSE b
XIf(c, t) == IF c THEN {t} ELSE {}
XOnly(S) == CHOOSE r \in S : TRUE

XInterior(c) == {<<y, x>> : y \in (c.edge + 1)..(c.h - c.edge), x \in (c.edge + 1)..(c.w - c.edge)}
XAll(c) == {<<y, x>> : y \in 1..c.h, x \in 1..c.w}
XNear(c, p) == <<XMin(XMax(p[1], c.edge + 1), c.h - c.edge), XMin(XMax(p[2], c.edge + 1), c.w - c.edge)>>
XClamp(v, t) == IF v < t THEN t ELSE v
XDiff(a, b, warmer) == IF a >= b THEN a - b ELSE IF warmer THEN 0 ELSE b - a
At(f, p) == f[p[1]][p[2]]

RECURSIVE XSum(_, _)
XSum(S, f) == IF S = {} THEN 0 ELSE LET p == CHOOSE q \in S : TRUE IN At(f, p) + XSum(S \ {p}, f)
XMean(c, f) == XSum(XInterior(c), f) \div Cardinality(XInterior(c))
XClampMean(c, avg) == LET lo == IF c.tmin # 0 THEN XMax(avg, c.tmin) ELSE avg
                      IN IF c.tmax # 0 THEN XMin(lo, c.tmax) ELSE lo
ThreshOK(c, th, b) == LET m == XMean(c, b) IN \E s \in {-1, 0, 1} : th = XClampMean(c, m + s)

DetMonInit(c) ==
  [cfg |-> c, hist |-> <<>>, prevD |-> {}, everAff |-> FALSE, prevAff |-> FALSE,
   pre |-> TRUE,                              \* C08 precondition has held for every frame so far
   indep |-> FALSE, periodEq |-> FALSE,       \* C09 pairing
   seeded |-> FALSE, nbg |-> 0,               \* C15: an unaffected frame was seen since start/reset; their count
   prevThresh |-> c.T, prevBg |-> <<>>,
   v |-> {}]

DFrameStep(m, E) ==
  LET c == m.cfg
      f == E.pix
      I == XInterior(c)
      paired == "pix2" \in DOMAIN E
      h1 == IF Len(m.hist) <= c.gap THEN Append(m.hist, f) ELSE Append(Tail(m.hist), f)
      ref == h1[1]
      D == {p \in I : XDiff(XClamp(At(f, p), c.T), XClamp(At(ref, p), c.T), c.warmer) > c.delta}
      n == IF c.one THEN Cardinality(D) ELSE Cardinality(D \cap m.prevD)
      decl == n >= c.cnt
      judge07 == ~c.dyn /\ ~m.everAff /\ ~E.aff
      \* ---- pairing
      same == paired /\ E.pix = E.pix2
      eqInt == paired /\ \A p \in I : At(E.pix, p) = At(E.pix2, p)
      eqCold == paired /\ \A p \in I : XClamp(At(E.pix, p), c.T) = XClamp(At(E.pix2, p), c.T)
      pre1 == m.pre /\ (IF c.dyn THEN eqInt ELSE eqCold)
      periodEq1 == IF E.aff THEN (IF m.prevAff THEN m.periodEq /\ same ELSE same) ELSE m.periodEq
      indep1 == IF ~paired THEN FALSE
                ELSE IF E.aff THEN m.indep /\ same
                ELSE IF m.prevAff THEN (m.indep \/ m.periodEq) /\ same
                ELSE m.indep /\ same
      \* ---- C15
      dynObs == c.dyn /\ "bg" \in DOMAIN E
      reseedNow == ~E.aff /\ (~m.seeded \/ m.prevAff)
      nbg1 == IF E.aff THEN m.nbg ELSE m.nbg + 1
      v == XIf(judge07 /\ E.motion # decl, IF E.motion THEN "C07:false-motion" ELSE "C07:missed-motion")
           \cup XIf((E.aff \/ m.prevAff) /\ E.motion, "C09:motion-during-or-after-ffc")
           \cup XIf(paired /\ E.kind = "history" /\ indep1 /\ E.motion # E.motion2, "C09:depends-on-earlier-frames")
           \cup XIf(paired /\ E.kind # "history" /\ pre1 /\ E.motion # E.motion2, "C08:detection-differs")
           \cup XIf(paired /\ E.kind # "history" /\ pre1 /\ dynObs /\ E.thresh # E.thresh2, "C08:threshold-differs")
           \cup XIf(paired /\ E.kind # "history" /\ pre1 /\ dynObs /\ (\E p \in I : At(E.bg, p) # At(E.bg2, p)), "C08:background-differs")
           \cup XIf(dynObs /\ ~E.aff /\ (\E p \in I : At(E.bg, p) > At(f, p)), "C15:background-warmer-than-frame")
           \cup XIf(dynObs /\ (m.seeded \/ ~E.aff) /\ (\E p \in XAll(c) : At(E.bg, p) # At(E.bg, XNear(c, p))), "C15:border-not-replicated")
           \cup XIf(dynObs /\ reseedNow /\ (\E p \in I : At(E.bg, p) # At(f, p)), "C15:not-reseeded")
           \cup XIf(dynObs /\ E.thresh # m.prevThresh /\ ~ThreshOK(c, E.thresh, E.bg), "C15:threshold-not-clamped-mean")
           \cup XIf(dynObs /\ ~E.aff /\ nbg1 > c.preview /\ m.prevBg # <<>> /\ E.bg # m.prevBg /\ ~ThreshOK(c, E.thresh, E.bg),
                    "C15:threshold-not-tracking")
           \cup XIf(~c.dyn /\ "thresh" \in DOMAIN E /\ E.thresh # c.T, "C07:fixed-threshold-moved")
           \cup XIf(~c.dyn /\ "thresh" \in DOMAIN E /\ E.thresh # c.T, "C08:fixed-threshold-moved")
  IN [m EXCEPT !.v = v, !.hist = h1, !.prevD = D, !.everAff = @ \/ E.aff, !.prevAff = E.aff,
               !.pre = pre1, !.indep = indep1, !.periodEq = periodEq1,
               !.seeded = @ \/ ~E.aff, !.nbg = nbg1,
               !.prevThresh = IF "thresh" \in DOMAIN E THEN E.thresh ELSE @,
               !.prevBg = IF "bg" \in DOMAIN E THEN E.bg ELSE @]

DResetStep(m, E) ==
  [m EXCEPT !.v = {}, !.hist = <<>>, !.prevD = {}, !.seeded = FALSE, !.nbg = 0,
            !.indep = IF m.cfg.dyn THEN @ ELSE TRUE]

DetMonStep(m, E) ==
  XOnly({ CASE E.ev = "dframe" -> DFrameStep(m0, E)
            [] E.ev = "dreset" -> DResetStep(m0, E)
            [] E.ev = "dpanic" -> [m0 EXCEPT !.v = {"ANY:detector-panicked"}]
            [] E.ev = "motioncfg" ->  \* the motion settings in force after the daemon's own config loading (ParseConfig +
                                      \* LoadMotionConfig) vs. the generated config.toml: <<key, configured, in force>>
                 [m0 EXCEPT !.v = (IF E.err # "" THEN {"ANY:valid-motion-settings-rejected"} ELSE {})
                    \cup UNION { IF E.pairs[i][2] = E.pairs[i][3] THEN {}
                                 ELSE IF E.pairs[i][1] = "temp-thresh" /\ (\E j \in DOMAIN E.pairs : E.pairs[j][1] = "dynamic-threshold" /\ E.pairs[j][2] = "false")
                                      THEN {"C07:configured-motion-settings-not-in-force",      \* the fixed threshold itself: C07's rule and
                                            "C08:configured-fixed-threshold-not-in-force"}      \* C08's 'at or below temp-thresh' refer to it
                                 ELSE IF E.pairs[i][1] \in {"dynamic-threshold", "temp-thresh", "temp-thresh-min", "temp-thresh-max"}
                                      THEN {"C15:configured-threshold-settings-not-in-force"}
                                 ELSE IF E.pairs[i][1] = "edge-pixels" THEN {"C08:configured-edge-pixels-not-in-force"}
                                 ELSE {"C07:configured-motion-settings-not-in-force"} : i \in DOMAIN E.pairs }]
            [] E.ev = "sstart" ->     \* what reached storage with a (re)started file: the trigger's threshold, the detector's background
                 [m0 EXCEPT !.v = XIf(E.thresh # E.trig_thresh, "C15:recording-threshold-not-the-one-at-trigger")
                                  \cup XIf(E.bg # E.det_bg, "C15:recording-background-not-the-one-in-force")]
            [] OTHER           -> m0
          : m0 \in {[m EXCEPT !.v = {}]} })
=============================================================================
