-------------------------- MODULE LifecycleTrace --------------------------
(***************************************************************************)
(* Trace validation of Lifecycle.tla: the lifecycle lines the unmodified   *)
(* runMain() printed during end-to-end runs (several camera connections    *)
(* per daemon run, connections that die inside the header, 'clear'         *)
(* markers), in the order they were printed:                               *)
(*   run      a new daemon process                                         *)
(*   listen   "waiting for camera connection"                              *)
(*   header   "connection from ... @<fps>fps"                              *)
(*   reading  "reading frames"                                             *)
(*   clear    "clearing motion buffer"                                     *)
(*   count    "<n> frames for this connection"                             *)
(*   end      "camera connection ended with: ..." plus what the harness    *)
(*            knows about that connection: frames sent (whole ones)        *)
(* Frames are not logged one by one: a `count` line stands for the frames  *)
(* up to n (Frames(n - total), and n must be the only due line among       *)
(* them), an `end` line for the remaining frames sent (none of which may   *)
(* have been due).  Acceptance = every line consumed.                      *)
(***************************************************************************)
EXTENDS Lifecycle, Json

VARIABLE l
Trace == ndJsonDeserialize("trace.ndjson")
T == Trace[l]
tvars == <<vars, l>>

TInit == Init /\ l = 1

NoDueBetween(a, b) == \A n \in (a + 1)..b : ~Due(n, fps)

TRun     == T.ev = "run" /\ phase' = "start" /\ fps' = 1 /\ total' = 0 /\ nconn' = 0 /\ ivFirst' = Base1 /\ ivLong' = Base2 /\ logged' = {}
TListen  == T.ev = "listen" /\ Listen
THeader  == T.ev = "header" /\ HeaderOk(T.fps)
TReading == T.ev = "reading" /\ Reading
TClear   == T.ev = "clear" /\ Clear
TCount   == /\ T.ev = "count" /\ phase = "frames" /\ T.n > total
            /\ Frames(T.n - total) /\ phase' = "frames"
            /\ logged' = logged \cup {T.n}              \* exactly this one line became due
TEnd     == /\ T.ev = "end"
            /\ \/ /\ phase = "listening" /\ T.sent = 0 /\ HeaderBad
               \/ /\ phase \in {"header", "frames"} /\ T.sent = total /\ End
               \/ /\ phase = "frames" /\ T.sent > total         \* the frames after the last progress line, then the end
                  /\ NoDueBetween(total, T.sent)
                  /\ phase' = "ended" /\ total' = T.sent
                  /\ UNCHANGED <<fps, nconn, ivFirst, ivLong, logged>>

TNext == l <= Len(Trace) /\ l' = l + 1 /\ (TRun \/ TListen \/ THeader \/ TReading \/ TClear \/ TCount \/ TEnd)
Accepted == TLCGet("stats").diameter - 1 = Len(Trace)
=============================================================================
