------------------------------ MODULE LogTrace ------------------------------
(* Traces of the real loglimiter.LogLimiter (injected clock, captured log  *)
(* output) judged by TLC against the declarative rule of C20.              *)
EXTENDS Integers, Sequences, Json, TLC

VARIABLES l, interval, lastMsg, lastTime, has
Trace == ndJsonDeserialize("trace.ndjson")

TInit == l = 1 /\ interval = 0 /\ lastMsg = "" /\ lastTime = 0 /\ has = FALSE

TNext == /\ l <= Len(Trace) /\ l' = l + 1
         /\ \E E \in {Trace[l]} :
            IF E.ev = "new"
            THEN interval' = E.interval /\ lastMsg' = "" /\ lastTime' = 0 /\ has' = FALSE
            ELSE IF E.ev = "const"
            THEN /\ (IF E.ms = 60000 THEN TRUE ELSE PrintT(<<"VIOL", l, {"C20:recorder-interval-not-one-minute"}>>))
                 /\ UNCHANGED <<interval, lastMsg, lastTime, has>>
            ELSE LET should == ~(has /\ E.msg = lastMsg /\ E.now - lastTime < interval)
                     did    == E.out # ""
                     v == (IF should /\ ~did THEN {"C20:message-lost"} ELSE {})
                          \cup (IF ~should /\ did THEN {"C20:repeat-not-suppressed"} ELSE {})
                          \cup (IF did /\ E.out # E.msg \o "\n" THEN {"C20:message-modified"} ELSE {})
                 IN /\ (IF v = {} THEN TRUE ELSE PrintT(<<"VIOL", l, v>>))
                    /\ lastMsg' = (IF did THEN E.msg ELSE lastMsg)
                    /\ lastTime' = (IF did THEN E.now ELSE lastTime)
                    /\ has' = (has \/ did)
                    /\ UNCHANGED interval
Consumed == TLCGet("stats").diameter - 1 = Len(Trace)
=============================================================================
