------------------------------ MODULE LogTrace ------------------------------
(* Traces of the real loglimiter.LogLimiter (injected clock, captured log  *)
(* output) judged by TLC against the declarative rule of C20.              *)
EXTENDS Integers, Sequences, Json, TLC

VARIABLES l, interval, lastMsg, lastTime, has
Trace == ndJsonDeserialize("trace.ndjson")

TInit == l = 1 /\ interval = 0 /\ lastMsg = "" /\ lastTime = 0 /\ has = FALSE

TNext == /\ l <= Len(Trace) /\ l' = l + 1
         /\ \E E \in {Trace[l]} :
            IF E.ev = "new"
            THEN interval' = E.interval /\ lastMsg' = "" /\ lastTime' = 0 /\ has' = FALSE
            ELSE IF E.ev = "const"
            THEN /\ (IF E.ms = 60000 THEN TRUE ELSE PrintT(<<"VIOL", l, {"C20:recorder-interval-not-one-minute"}>>))
                 /\ UNCHANGED <<interval, lastMsg, lastTime, has>>
            ELSE IF E.ev = "pnew"     \* a new MotionProcessor (it owns a fresh limiter)
            THEN interval' = 60000 /\ lastMsg' = "" /\ lastTime' = 0 /\ has' = FALSE
            ELSE IF E.ev = "pout"     \* a line the real MotionProcessor printed (all its messages pass its limiter):
                                      \* output-only view of the rule, the processor's life is far shorter than a minute
            THEN /\ (IF has /\ E.out = lastMsg /\ E.now - lastTime < interval
                     THEN PrintT(<<"VIOL", l, {"C20:processor-repeats-line-within-interval"}>>) ELSE TRUE)
                 /\ lastMsg' = E.out /\ lastTime' = E.now /\ has' = TRUE /\ UNCHANGED interval
            ELSE IF E.ev = "pcmp"     \* one processor script run twice: `attempts` = everything the processor tried to log (its
                                      \* limiter replaced by one that suppresses nothing), `out` = what the unmodified processor
                                      \* printed.  Both runs take far less than the interval, so the rule of C20 reduces to
                                      \* "print iff different from the last line printed": out must be attempts without
                                      \* immediate repetitions.
            THEN /\ UNCHANGED <<interval, lastMsg, lastTime, has>>
                 /\ LET RECURSIVE Dedup(_, _)
                        Dedup(sq, last) == IF sq = <<>> THEN <<>>
                                           ELSE IF Head(sq) = last THEN Dedup(Tail(sq), last)
                                           ELSE <<Head(sq)>> \o Dedup(Tail(sq), Head(sq))
                        want == Dedup(E.attempts, "\n(none)")
                    IN IF want = E.out THEN TRUE
                       ELSE PrintT(<<"VIOL", l, {IF Len(E.out) < Len(want) THEN "C20:processor-loses-distinct-messages"
                                                 ELSE "C20:processor-output-differs-from-limiter-rule"}>>)
            ELSE IF E.ev = "prep"     \* two consecutive frames of one processor script that are the same step of the script and
                                      \* led to the same storage calls with the same results (frame writes only, one failing at least): one
                                      \* condition recurring.  `a` and `b` are the messages the processor tried to log on the two
                                      \* frames; were they to differ, the limiter could never recognise the repetition.
                                      \* Likewise for two consecutive identical frames of a run of motion whose start is refused
                                      \* (window closed, disk space missing) once the refusal has been reported (a # <<>>): the
                                      \* condition still holds, so it is reported again (and the limiter decides what is printed).
            THEN /\ UNCHANGED <<interval, lastMsg, lastTime, has>>
                 /\ (IF E.a = E.b THEN TRUE
                     ELSE PrintT(<<"VIOL", l, {IF E.b = <<>> THEN "C20:recurring-condition-no-longer-reported" ELSE "C20:recurring-condition-reworded-every-frame"}>>))
            ELSE LET should == ~(has /\ E.msg = lastMsg /\ E.now - lastTime < interval)
                     did    == E.out # ""
                     v == (IF should /\ ~did THEN {"C20:message-lost"} ELSE {})
                          \cup (IF ~should /\ did THEN {"C20:repeat-not-suppressed"} ELSE {})
                          \cup (IF did /\ E.out # E.msg \o "\n" THEN {"C20:message-modified"} ELSE {})
                 IN /\ (IF v = {} THEN TRUE ELSE PrintT(<<"VIOL", l, v>>))
                    /\ lastMsg' = (IF did THEN E.msg ELSE lastMsg)
                    /\ lastTime' = (IF did THEN E.now ELSE lastTime)
                    /\ has' = (has \/ did)
                    /\ UNCHANGED interval
Consumed == TLCGet("stats").diameter - 1 = Len(Trace)
=============================================================================
