------------------------------- MODULE ThrMon -------------------------------
(***************************************************************************)
(* Observer for C05 and C06.  It sees only: the upstream calls made on the *)
(* ThrottledRecorder (start / w / stop), the time elapsed before each      *)
(* call, the calls that reached the wrapped base recorder during it (with  *)
(* their results and whether the arguments were passed on unchanged), the  *)
(* number of 'throttled' notifications and the returned error.             *)
(*                                                                         *)
(* Budget: a token bucket of Cap frames refilled with one frame every K    *)
(* time units (K = min-refill / ((min-secs+preview-secs)*fps)), kept in    *)
(* two accountings: `af` exact, `aq` with the one-extra-token behaviour of *)
(* juju/ratelimit v1.0.1 (latestTick is not advanced while the bucket is   *)
(* full).  lo = af <= true budget <= aq = hi; clauses that demand          *)
(* forwarding use lo, clauses that forbid it use hi.                       *)
(* C05 is pure observation: over every window of forwarded writes          *)
(*   (count - Cap - 2) * K * 100 <= span * 101,                            *)
(* carried as a max-subarray potential phi.                                *)
(***************************************************************************)
EXTENDS Integers, Sequences, FiniteSets

TMin(a, b) == IF a < b THEN a ELSE b
TMax(a, b) == IF a > b THEN a ELSE b
TIf(c, t) == IF c THEN {t} ELSE {}
TOnly(S) == CHOOSE r \in S : TRUE

ThrMonInit(c) ==     \* c = [Cap, MinLen, K]
  [cfg |-> c, phase |-> 0,
   af |-> c.Cap, pend |-> 0,          \* exact accounting: tokens, ticks not yet credited
   aq |-> c.Cap, stale |-> 0,         \* library accounting: tokens, ticks since its latestTick
   baseOpen |-> FALSE, upOpen |-> FALSE, baseCnt |-> 0,
   phi |-> 0, age |-> 0, everFw |-> FALSE,
   disk |-> TRUE,                     \* processor composition: the storage layer's free-disk-space check passes on the current frame
   v |-> {}]

(* time passes *)
Elapse(m, dt) ==
  LET ticks == (m.phase + dt) \div m.cfg.K
      lim   == m.cfg.Cap + 1
  IN [m EXCEPT !.phase = (m.phase + dt) % m.cfg.K,
               !.pend  = TMin(lim, @ + ticks),
               !.stale = TMin(lim, @ + ticks),
               !.age   = TMin((m.cfg.Cap + 3) * m.cfg.K, @ + dt)]
(* the bucket is consulted (Available / TakeAvailable) *)
Adjust(m) ==
  [m EXCEPT !.af = TMin(m.cfg.Cap, @ + m.pend), !.pend = 0,
            !.aq = IF m.aq >= m.cfg.Cap THEN @ ELSE TMin(m.cfg.Cap, @ + m.stale),
            !.stale = IF m.aq >= m.cfg.Cap THEN @ ELSE 0]
(* one frame reached storage *)
Forwarded(m) ==
  LET p == (IF m.everFw THEN TMax(m.phi - m.age * 101, 0) ELSE 0) + m.cfg.K * 100
  IN [m EXCEPT !.af = TMax(@ - 1, 0), !.aq = TMax(@ - 1, 0),
               !.baseCnt = TMin(m.cfg.MinLen, @ + 1),
               !.phi = p, !.age = 0, !.everFw = TRUE,
               !.v = @ \cup TIf(p > (m.cfg.Cap + 2) * m.cfg.K * 100, "C05:budget-exceeded")]

Ops(b) == [i \in 1..Len(b) |-> b[i].op]

StartStep(m, E) ==       \* m already elapsed + adjusted
  LET b  == E.base
      lo == m.af
      hi == m.aq
      fw == b # <<>> /\ b[1].op = "start"
      ok == fw /\ b[1].ok
      v  == TIf(Ops(b) \notin {<<>>, <<"start">>}, "C06:unexpected-base-call")
            \cup TIf(fw /\ m.baseOpen, "C06:pairing-start-while-open")
            \cup TIf(fw /\ hi < m.cfg.MinLen, "C06:start-without-budget")
            \cup TIf(~fw /\ lo >= m.cfg.MinLen /\ ~m.baseOpen, "C06:start-not-forwarded")
            \cup TIf(fw /\ ~b[1].same, "C06:start-arguments-changed")
            \cup TIf(fw /\ ~b[1].ok /\ ~E.err, "C06:start-error-swallowed")
            \cup TIf((~fw \/ ok) /\ E.err, "C06:spurious-error")
            \cup TIf(E.nev # (IF fw THEN 0 ELSE 1), "C06:event-count")
            \* C04 through the throttle: the processor asks the throttle whether it can record; a start request on a frame
            \* on which the storage layer's disk check fails means the refusal was swallowed on the way
            \cup TIf(~m.disk, "C04:start-below-min-disk-space[through-throttle]")
  IN [m EXCEPT !.v = @ \cup v, !.baseOpen = @ \/ ok, !.baseCnt = IF ok THEN 0 ELSE @,
               !.upOpen = ~E.err]

WriteStep(m, E) ==
  LET b  == E.base
      lo == m.af
      hi == m.aq
      ops == Ops(b)
      open == m.baseOpen
      restartOk == ~open /\ Len(b) >= 1 /\ b[1].op = "start" /\ b[1].ok
      restartFail == ~open /\ Len(b) >= 1 /\ b[1].op = "start" /\ ~b[1].ok
      forwarded == \E i \in DOMAIN b : b[i].op = "w"
      cut == open /\ ops = <<"stop">>
      v == TIf(open /\ ops \notin {<<"w">>, <<"stop">>}, "C06:unexpected-base-call")
           \cup TIf(~open /\ ops \notin {<<>>, <<"start">>, <<"start", "w">>, <<"start", "stop">>}, "C06:unexpected-base-call")
           \cup TIf(~open /\ ops = <<"start", "w">> /\ ~b[1].ok, "C06:pairing-write-while-closed")
           \cup TIf(open /\ lo >= 1 /\ ~forwarded, "C06:frame-dropped-within-budget")
           \cup TIf(open /\ hi < 1 /\ forwarded, "C06:frame-forwarded-without-budget")
           \cup TIf(forwarded /\ \E i \in DOMAIN b : b[i].op = "w" /\ ~b[i].same, "C06:frame-changed")
           \cup TIf(cut /\ m.baseCnt < m.cfg.MinLen, "C06:short-file-cut")
           \cup TIf(~open /\ hi < m.cfg.MinLen /\ ops # <<>>, "C06:restart-without-budget")
           \cup TIf(~open /\ lo >= m.cfg.MinLen /\ ops = <<>>, "C06:restart-missed")
           \cup TIf(restartOk /\ ~b[1].same, "C06:restart-arguments-changed")
           \cup TIf(restartFail /\ ~E.err, "C06:start-error-swallowed")
           \cup TIf(E.nev # (IF cut \/ (restartOk /\ ops = <<"start", "stop">>) THEN 1 ELSE 0), "C06:event-count")
      m1 == [m EXCEPT !.v = @ \cup v,
                      !.baseOpen = (open \/ restartOk) /\ ~(\E i \in DOMAIN b : b[i].op = "stop"),
                      !.baseCnt = IF restartOk THEN 0 ELSE @]
  IN IF forwarded THEN Forwarded(m1) ELSE m1

StopStep(m, E) ==
  LET ops == Ops(E.base)
      v == TIf(m.baseOpen /\ ops # <<"stop">>, "C06:stop-not-forwarded")
           \cup TIf(~m.baseOpen /\ ops # <<>>, "C06:pairing-call-while-closed")
           \cup TIf(E.nev # 0, "C06:event-count")
  IN [m EXCEPT !.v = @ \cup v, !.baseOpen = FALSE, !.upOpen = FALSE]

ThrMonStep(m, E) ==
  TOnly({ CASE E.op = "start" -> TOnly({StartStep(m2, E) : m2 \in {Adjust(m1)}})
            [] E.op = "w"     -> TOnly({WriteStep(m2, E) : m2 \in {Adjust(m1)}})
            [] E.op = "stop"  -> StopStep(m1, E)
            [] E.op = "panic" -> [m1 EXCEPT !.v = {"ANY:throttle-panicked"}]
            [] OTHER          -> m1
          : m1 \in {Elapse([m EXCEPT !.v = {}], E.dt)} })
=============================================================================
