----------------------------- MODULE FrameLoop -----------------------------
(***************************************************************************)
(* motion/frameloop.go.  Code-shaped part: currentIndex, bufferFull,       *)
(* oldest and the slot contents (a tag per slot; 0 = never written), with  *)
(* the index arithmetic of Move / GetHistory / getFullHistory / Oldest /   *)
(* SetAsOldest / Reset / CopyRecent copied literally.                      *)
(* Declarative part (what C19 promises): the sequence `done` of frames     *)
(* completed since creation/reset, the frame in progress, and the position *)
(* of the last set-as-oldest mark.                                         *)
(* A client fills Current() (Write) and then calls Move; the processor     *)
(* may fill the same slot again (a bad frame is overwritten by the next).  *)
(***************************************************************************)
EXTENDS Integers, Sequences

CONSTANTS MaxCap, MaxTag

VARIABLES cap,                          \* capacity, chosen in Init
          cur, full, oldest, slots,     \* code-shaped
          written,                      \* the current slot has been filled since the last Move/creation/Reset
          done, curTag, markDone,       \* declarative
          tag                           \* next tag to use

rvars == <<cap, cur, full, oldest, slots, written, done, curTag, markDone, tag>>
NoOldest == -1
RMin(a, b) == IF a < b THEN a ELSE b

(* ---------------- code-shaped queries ---------------- *)
FullHist == IF cur = cap - 1 THEN [i \in 1..cap |-> slots[i - 1]]
            ELSE IF ~full THEN [i \in 1..(cur + 1) |-> slots[i - 1]]
            ELSE [i \in 1..cap |-> slots[(cur + i) % cap]]
CodeHistory == IF oldest = NoOldest THEN FullHist
               ELSE LET hl == ((cur - oldest + cap) % cap) + 1
                    IN SubSeq(FullHist, Len(FullHist) - hl + 1, Len(FullHist))
CodeOldest == IF oldest # NoOldest THEN slots[oldest] ELSE slots[(cur + 1) % cap]
CodeRecent == slots[(cur - 1 + cap) % cap]
CodeCurrent == slots[cur]

(* ---------------- what the property promises ---------------- *)
Stream(d, c) == d \o <<c>>                       \* completed frames, then the frame in progress
DeclHistoryOf(c, d, ct, md) ==
  LET s == Stream(d, ct)
      n == Len(s)
      k == IF n - md <= c THEN n - md ELSE c   \* mark still buffered: back to the mark, else the capacity
  IN SubSeq(s, n - k + 1, n)
DeclOldestOf(c, d, ct, md) ==
  LET s == Stream(d, ct)
      n == Len(s)
  IN IF n - md <= c THEN s[md + 1] ELSE s[n - c + 1]
DeclHistory == DeclHistoryOf(cap, done, curTag, markDone)
DeclOldest  == DeclOldestOf(cap, done, curTag, markDone)
DeclRecent  == done[Len(done)]

(* ---------------- actions ---------------- *)
Init == /\ cap \in 1..MaxCap
        /\ cur = 0 /\ full = FALSE /\ oldest = 0 /\ slots = [i \in 0..(MaxCap - 1) |-> 0]
        /\ written = FALSE /\ done = <<>> /\ curTag = 0 /\ markDone = 0 /\ tag = 1

Write == /\ tag <= MaxTag
         /\ slots' = [slots EXCEPT ![cur] = tag] /\ curTag' = tag /\ tag' = tag + 1 /\ written' = TRUE
         /\ UNCHANGED <<cap, cur, full, oldest, done, markDone>>

Move == /\ written
        /\ LET c1 == (cur + 1) % cap
           IN /\ cur' = c1
              /\ full' = (full \/ c1 = 0)
              /\ oldest' = IF c1 = oldest THEN NoOldest ELSE oldest
        /\ done' = Append(done, curTag) /\ curTag' = 0 /\ written' = FALSE
        /\ UNCHANGED <<cap, slots, markDone, tag>>

Mark == /\ oldest' = cur /\ markDone' = Len(done)
        /\ UNCHANGED <<cap, cur, full, slots, written, done, curTag, tag>>

Reset == /\ cur' = 0 /\ oldest' = 0 /\ full' = FALSE
         /\ done' = <<>> /\ curTag' = 0 /\ markDone' = 0 /\ written' = FALSE
         /\ UNCHANGED <<cap, slots, tag>>

Next == Write \/ Move \/ Mark \/ Reset

(* ---------------- C19 as invariants of the design ---------------- *)
HistoryOK == written => CodeHistory = DeclHistory
OldestOK  == written => CodeOldest = DeclOldest
(* with capacity 1 the frame before the current one is overwritten as soon as the current one is filled *)
RecentHeld == Len(done) >= 1 /\ (cap >= 2 \/ ~written)
RecentOK  == RecentHeld => CodeRecent = DeclRecent
CurrentOK == written => CodeCurrent = curTag
Bounded   == written => /\ Len(CodeHistory) <= cap /\ Len(CodeHistory) >= 1
                        /\ \A i \in 1..Len(CodeHistory) : CodeHistory[i] # 0          \* never an unwritten slot
                        /\ \A i \in 1..(Len(CodeHistory) - 1) : CodeHistory[i] < CodeHistory[i + 1]
                        /\ CodeHistory[Len(CodeHistory)] = curTag
                        /\ \A i \in 1..Len(CodeHistory) :                             \* nothing from before the reset
                             \E j \in 1..Len(Stream(done, curTag)) : Stream(done, curTag)[j] = CodeHistory[i]
TypeOK == cur \in 0..(cap - 1) /\ oldest \in -1..(cap - 1)
=============================================================================
