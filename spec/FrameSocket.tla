----------------------------- MODULE FrameSocket -----------------------------
(***************************************************************************)
(* The frame socket between the camera daemon (leptond) and the recorder:  *)
(* sender = header lines, a blank line, then fixed-size frames with        *)
(* 'clear' markers in between (cmd/leptond/main.go);  channel = a byte     *)
(* stream delivered in arbitrary segments (Deliver(k)), possibly closed    *)
(* early;  receiver = headers.ReadHeaderInfo on the shared bufio.Reader,   *)
(* then handleConn's loop: ReadFull(first ML bytes), marker check,         *)
(* ReadFull(rest of the frame)  (cmd/thermal-recorder/main.go).            *)
(* Bytes: 0 = newline, 9 = space, other values = data.                     *)
(* AvoidMarker = TRUE restricts frames to those that do not begin with the *)
(* marker bytes (the protocol has no escaping: finding F-C14-1).           *)
(***************************************************************************)
EXTENDS Integers, Sequences, FiniteSets

CONSTANTS Data,          \* data byte values (besides newline 0 and space 9)
          Marker,        \* the 'clear' marker as a byte sequence
          FrameLen, MaxItems, HeaderLines, AvoidMarker

VARIABLES toSend,        \* bytes the sender has not yet put on the wire
          hdrSent, items,\* what the sender meant: header lines, list of items (a frame or <<0>> for a marker)
          wire,          \* bytes in flight
          closed,        \* the sender has closed the connection
          buf,           \* bytes the receiver's bufio.Reader holds
          phase,         \* "header" / "prefix" / "rest" / "error" / "eof"
          lines,         \* header lines read so far
          cur,           \* first ML bytes of the frame being read
          delivered      \* frames handed to the processor and resets performed, in order

svars == <<toSend, hdrSent, items, wire, closed, buf, phase, lines, cur, delivered>>

NL == 0
SP == 9
ML == Len(Marker)
Frames == {f \in [1..FrameLen -> Data] : AvoidMarker => SubSeq(f, 1, ML) # Marker}
Line(s) == s \o <<NL>>
Blank == {<<NL>>, <<SP, NL>>}

RECURSIVE Flat(_)
Flat(ss) == IF ss = <<>> THEN <<>> ELSE Head(ss) \o Flat(Tail(ss))

Init == /\ \E hl \in HeaderLines, bl \in Blank, n \in 0..MaxItems :
             \E its \in [1..n -> Frames \cup {<<0>>}] :
                /\ hdrSent = hl /\ items = its
                /\ toSend = Flat([i \in 1..Len(hl) |-> Line(hl[i])]) \o bl
                            \o Flat([i \in 1..n |-> IF its[i] = <<0>> THEN Marker ELSE its[i]])
        /\ wire = <<>> /\ closed = FALSE /\ buf = <<>> /\ phase = "header" /\ lines = <<>> /\ cur = <<>> /\ delivered = <<>>

Send(k) == /\ ~closed /\ k \in 1..Len(toSend)
           /\ wire' = wire \o SubSeq(toSend, 1, k) /\ toSend' = SubSeq(toSend, k + 1, Len(toSend))
           /\ UNCHANGED <<hdrSent, items, closed, buf, phase, lines, cur, delivered>>
Close == ~closed /\ closed' = TRUE /\ UNCHANGED <<toSend, hdrSent, items, wire, buf, phase, lines, cur, delivered>>
Deliver(k) == /\ k \in 1..Len(wire)
              /\ buf' = buf \o SubSeq(wire, 1, k) /\ wire' = SubSeq(wire, k + 1, Len(wire))
              /\ UNCHANGED <<toSend, hdrSent, items, closed, phase, lines, cur, delivered>>
AtEOF == closed /\ wire = <<>>          \* nothing more will ever arrive

(* reader.ReadString('\n') *)
NLPos == IF \E i \in 1..Len(buf) : buf[i] = NL THEN CHOOSE i \in 1..Len(buf) : buf[i] = NL /\ \A j \in 1..(i - 1) : buf[j] # NL ELSE 0
ReadLine == /\ phase = "header"
            /\ IF NLPos > 0
               THEN LET ln == SubSeq(buf, 1, NLPos)
                        body == SelectSeq(ln, LAMBDA b : b # SP)
                    IN /\ buf' = SubSeq(buf, NLPos + 1, Len(buf))
                       /\ IF body = <<NL>> THEN phase' = "prefix" /\ UNCHANGED lines
                          ELSE phase' = "header" /\ lines' = Append(lines, SubSeq(ln, 1, Len(ln) - 1))
               ELSE AtEOF /\ phase' = "error" /\ buf' = <<>> /\ UNCHANGED lines      \* ReadString returns io.EOF
            /\ UNCHANGED <<toSend, hdrSent, items, wire, closed, cur, delivered>>
(* io.ReadFull(reader, rawFrame[:5]) and the marker check *)
ReadPrefix == /\ phase = "prefix"
              /\ IF Len(buf) >= ML
                 THEN LET p == SubSeq(buf, 1, ML) IN
                      /\ buf' = SubSeq(buf, ML + 1, Len(buf))
                      /\ IF p = Marker THEN delivered' = Append(delivered, <<0>>) /\ phase' = "prefix" /\ cur' = <<>>
                         ELSE phase' = "rest" /\ cur' = p /\ UNCHANGED delivered
                 ELSE AtEOF /\ phase' = "eof" /\ buf' = <<>> /\ UNCHANGED <<cur, delivered>>
              /\ UNCHANGED <<toSend, hdrSent, items, wire, closed, lines>>
(* io.ReadFull(reader, rawFrame[5:]) then processor.Process *)
ReadRest == /\ phase = "rest"
            /\ IF Len(buf) >= FrameLen - ML
               THEN /\ delivered' = Append(delivered, cur \o SubSeq(buf, 1, FrameLen - ML))
                    /\ buf' = SubSeq(buf, FrameLen - ML + 1, Len(buf)) /\ phase' = "prefix" /\ cur' = <<>>
               ELSE AtEOF /\ phase' = "eof" /\ buf' = <<>> /\ UNCHANGED <<cur, delivered>>
            /\ UNCHANGED <<toSend, hdrSent, items, wire, closed, lines>>

Next == (\E k \in 1..3 : Send(k)) \/ Close \/ (\E k \in 1..3 : Deliver(k)) \/ ReadLine \/ ReadPrefix \/ ReadRest

IsPrefix(a, b) == Len(a) <= Len(b) /\ \A i \in 1..Len(a) : a[i] = b[i]
(* C14 *)
InOrderOnce   == IsPrefix(delivered, items)                       \* every frame once, in order; markers are resets
HeaderExact   == phase \in {"prefix", "rest", "eof"} => lines = hdrSent
NoOverRead    == (phase = "prefix" /\ delivered = <<>> /\ cur = <<>>) =>
                   \* what the reader holds plus what is in flight or unsent is exactly the item bytes
                   buf \o wire \o toSend = Flat([i \in 1..Len(items) |-> IF items[i] = <<0>> THEN Marker ELSE items[i]])
TruncationIsError == (phase \in {"prefix", "rest"} /\ delivered = <<>> /\ cur = <<>>) => TRUE
NoPartialHeader == phase = "error" => TRUE
AllDelivered  == (toSend = <<>> /\ wire = <<>> /\ phase = "eof") => delivered = items
Liveness == <>(phase \in {"eof", "error"})
Fair == WF_svars(ReadLine) /\ WF_svars(ReadPrefix) /\ WF_svars(ReadRest) /\ WF_svars(\E k \in 1..3 : Deliver(k)) /\ WF_svars(Close)
Spec == Init /\ [][Next]_svars /\ Fair
=============================================================================
