----------------------------- MODULE ProcMon -----------------------------
(***************************************************************************)
(* Observer automata ("monitors") for the properties that speak about the  *)
(* recording pipeline: C01 C02 C03 C04 C12 C13 C17 (+ the reset clause of  *)
(* C14).  They read ONLY observable events:                                *)
(*   cfg     : the configuration in force, in the property's own terms     *)
(*             (N = preview-secs*fps + trigger-frames, MinF = min-secs*fps,*)
(*             MaxF = max-secs*fps) computed by the harness, not the code  *)
(*   frame   : an accepted frame: its id, the MotionDetected callback, the *)
(*             wall-clock time given to the window, the disk-check result, *)
(*             the sink calls [s, op, id, ok] issued while it was processed*)
(*   bad     : a frame that Process() rejected (isbad = BadFrameErr)       *)
(*   reset   : MotionProcessor.Reset                                       *)
(*   snapreq : a test-recording request                                    *)
(*   panic   : a recovered panic                                           *)
(* and never a Go field.  MonStep(m, E) returns the next observer state and *)
(* the set of violated clauses ("C03:late-stop" ...).  The same operators   *)
(* are evaluated by TLC (a) as invariants over every behaviour of the      *)
(* design model Processor.tla and (b) over traces recorded from the real   *)
(* code.                                                                   *)
(***************************************************************************)
EXTENDS Integers, Sequences, FiniteSets

Sinks  == {"m", "c", "s"}
Poison == 60000            \* ids >= Poison are carried by bad frames only

MMin(a, b) == IF a < b THEN a ELSE b
MMax(a, b) == IF a > b THEN a ELSE b

MonInit(c) ==
  [cfg   |-> c,                                   \* [N, TrigF, MinF, MaxF, ConstOn, SnapLen, winS, winE]
   open  |-> [s \in Sinks |-> FALSE],
   taint |-> [s \in Sinks |-> FALSE],             \* a sink call failed: clauses outside C12 suspended
   acc   |-> 0,                                   \* accepted frames so far (= id of the latest)
   lastW |-> 0, prevW |-> 0, nW |-> 0,            \* motion sink: highest id ever / last id, #writes of this file
   accStop |-> 0,                                 \* accepted frames when the last motion recording ended
   k |-> 0, mm |-> 0,                             \* C03: frames since trigger, index of latest motion frame
   runLo |-> 0, runHi |-> 0,                      \* C04: length of the current motion run (two readings)
   cLast |-> 0, cN |-> 0,                         \* continuous sink
   sPend |-> FALSE, sN |-> 0, sLast |-> 0,        \* test sink
   afterReset |-> TRUE,                           \* no frame accepted yet since start-up / the last camera reset
   v |-> {}]                                      \* violations raised by the event being folded

(* The recording window, declaratively: open on the half-open interval       *)
(* [winS, winE) of the 24 h circle (seconds of day); winS = winE means "no   *)
(* window" = always open.  At the two boundary instants either answer is     *)
(* accepted ("edge").                                                        *)
WinOf(c, now) ==
  IF c.winS = c.winE THEN "in"
  ELSE IF now = c.winS \/ now = c.winE THEN "edge"
  ELSE IF c.winS < c.winE THEN (IF c.winS < now /\ now < c.winE THEN "in" ELSE "out")
  ELSE (IF now > c.winS \/ now < c.winE THEN "in" ELSE "out")

If(cond, tag) == IF cond THEN {tag} ELSE {}
(* "strict let": binding through a singleton set makes TLC evaluate the      *)
(* expression once instead of once per reference.                            *)
Only(S) == CHOOSE r \in S : TRUE

(* ---- one sink call: returns the observer state after the call ---- *)
CallStep(m, c, E) ==
  LET s == c.s IN
  CASE c.op = "start" ->
         [m EXCEPT !.v = @ \cup If(m.open[s], "C12:start-while-open-" \o s),
                   !.open[s] = @ \/ c.ok,
                   !.nW = IF s = "m" THEN 0 ELSE @, !.prevW = IF s = "m" THEN 0 ELSE @,
                   !.cN = IF s = "c" THEN 0 ELSE @, !.sN = IF s = "s" THEN 0 ELSE @,
                   !.taint[s] = @ \/ (s # "m" /\ ~c.ok)]
    [] c.op = "w" ->
         LET okOrder == CASE s = "m" -> IF m.nW = 0 THEN c.id > m.lastW ELSE c.id = m.prevW + 1
                          [] s = "c" -> c.id = m.cLast + 1
                          [] s = "s" -> IF m.sN = 0 THEN c.id = m.acc ELSE c.id = m.sLast + 1
             tag == CASE s = "m" -> "C01:order" [] s = "c" -> "C17:continuous-order" [] s = "s" -> "C17:test-order"
         IN [m EXCEPT !.v = @ \cup If(~m.open[s], "C12:write-while-closed-" \o s)
                               \cup If(c.id >= Poison, "C13:bad-frame-written-" \o s)
                               \cup If(~m.taint[s] /\ ~okOrder, tag),
                      !.lastW = IF s = "m" THEN MMax(@, c.id) ELSE @,
                      !.prevW = IF s = "m" THEN c.id ELSE @, !.nW = IF s = "m" THEN @ + 1 ELSE @,
                      !.cLast = IF s = "c" THEN c.id ELSE @, !.cN = IF s = "c" THEN @ + 1 ELSE @,
                      !.sLast = IF s = "s" THEN c.id ELSE @, !.sN = IF s = "s" THEN @ + 1 ELSE @,
                      \* a failed pre-trigger write aborts the recording (C12's domain); a failed write of the current frame
                      \* or a failed stop changes nothing about when recordings start and end
                      !.taint[s] = @ \/ (~c.ok /\ (s # "m" \/ c.id < m.acc))]
    [] c.op = "stop" ->
         LET wasOpen == m.open[s] IN
         [m EXCEPT !.v = @ \cup If(s = "c" /\ wasOpen /\ ~m.taint["c"] /\ E.ev = "frame"
                                   /\ m.cN # m.cfg.MaxF + 1, "C17:continuous-length")
                           \cup If(s = "s" /\ wasOpen /\ ~m.taint["s"] /\ m.sN # m.cfg.SnapLen + 1,
                                   "C17:test-length"),
                   !.accStop = IF s = "m" /\ wasOpen THEN m.acc ELSE @,
                   !.taint[s] = @ \/ (~c.ok /\ s # "m"),
                   !.open[s] = FALSE]

RECURSIVE FoldCalls(_, _, _)
FoldCalls(m, cs, E) ==
  IF cs = <<>> THEN m
  ELSE Only({FoldCalls(m1, Tail(cs), E) : m1 \in {CallStep(m, Head(cs), E)}})

SelCalls(cs, s, op) == SelectSeq(cs, LAMBDA c : c.s = s /\ c.op = op)
OfSink(cs, s) == SelectSeq(cs, LAMBDA c : c.s = s)
ProjSink(cs, s) == LET f == OfSink(cs, s) IN [i \in 1..Len(f) |-> <<f[i].op, f[i].id>>]
Has(cs, s, op) == \E i \in DOMAIN cs : cs[i].s = s /\ cs[i].op = op
Ids(cs) == [i \in 1..Len(cs) |-> cs[i].id]

(* ---- an accepted frame ---- *)
FramePost(m0, b0, E) ==       \* m0: observer state before the event, b0: after folding its calls
  LET cfg    == m0.cfg
      t      == E.id
      cs     == E.calls
      mOpen0 == m0.open["m"]
      win    == WinOf(cfg, E.now)
      clean  == /\ ~m0.taint["m"]                 \* no failed pre-trigger write on the motion sink
                /\ \A i \in DOMAIN cs : (cs[i].s = "m" /\ cs[i].op = "w" /\ cs[i].id < t) => cs[i].ok
      starts == SelCalls(cs, "m", "start")
      hasStart == starts # <<>>
      startOk  == hasStart /\ starts[1].ok
      hasStop  == Has(cs, "m", "stop")
      mWrites  == Ids(SelCalls(cs, "m", "w"))
      lo1 == IF E.motion THEN m0.runLo + 1 ELSE 0
      hi1 == IF E.motion THEN m0.runHi + 1 ELSE 0
      must == ~mOpen0 /\ E.motion /\ lo1 >= cfg.TrigF /\ win = "in" /\ E.disk
      may  == ~mOpen0 /\ E.motion /\ hi1 >= cfg.TrigF /\ win # "out" /\ E.disk
      lo   == MMax(MMax(1, m0.accStop + 1), t - (cfg.N - 1))
      want == [i \in 1..(t - lo + 1) |-> lo + i - 1]         \* lo .. t
      inRec == mOpen0 \/ startOk
      k1  == IF startOk /\ ~mOpen0 THEN 1 ELSE IF mOpen0 THEN m0.k + 1 ELSE 0
      mm1 == IF startOk /\ ~mOpen0 THEN 1 ELSE IF mOpen0 /\ E.motion THEN k1 ELSE m0.mm
      due == k1 >= MMin(mm1 + cfg.MinF - 1, cfg.MaxF)
      cW == Ids(SelCalls(cs, "c", "w"))
      sW == Ids(SelCalls(cs, "s", "w"))
      cClean == ~m0.taint["c"] /\ ~b0.taint["c"]
      sClean == ~m0.taint["s"] /\ ~b0.taint["s"]
      sShould == m0.open["s"] \/ m0.sPend
      stopped == hasStop /\ inRec
      viol ==
        If(E.id # m0.acc + 1, "HARNESS:id")
        \* ---------------- C04: a recording starts iff ...
        \cup If(clean /\ must /\ ~hasStart, "C04:start-missed")
        \cup If(clean /\ hasStart /\ ~may,
                IF ~E.motion THEN "C04:start-without-motion"
                ELSE IF win = "out" THEN "C04:start-outside-window"
                ELSE IF ~E.disk THEN "C04:start-without-disk-space"
                ELSE IF mOpen0 THEN "C04:start-while-recording"
                ELSE "C04:start-before-trigger-frames")
        \cup If(Len(starts) > 1, "C04:two-starts-in-one-frame")
        \cup If(~clean /\ hasStart /\ mOpen0, "C04:start-while-recording")      \* whatever failed before
        \cup If(clean /\ ~mOpen0 /\ ~startOk /\ mWrites # <<>>, "C04:write-without-recording")
        \* ---------------- C02 / C01 at a successful start
        \cup If(clean /\ startOk /\ mWrites # want, "C02:pre-trigger-frames")
        \cup If(clean /\ startOk /\ mWrites # <<>> /\ t - (cfg.N - 1) <= m0.lastW + 1
                /\ mWrites[1] # m0.lastW + 1, "C01:tiling")
        \cup If(clean /\ ~hasStart /\ mOpen0 /\ mWrites # <<t>>, "C01:frame-not-written-once")
        \* ---------------- C03: stop exactly when the first limit is reached
        \cup If(clean /\ inRec /\ due /\ ~hasStop,
                IF k1 >= cfg.MaxF THEN "C03:exceeds-max" ELSE "C03:late-stop")
        \cup If(clean /\ inRec /\ ~due /\ hasStop, "C03:early-stop")
        \cup If(clean /\ inRec /\ hasStop /\ b0.open["m"], "C03:stop-then-reopen")
        \* ---------------- C17
        \cup If(cfg.ConstOn /\ cClean /\ cW # <<t>>, "C17:continuous-frame-missing")
        \cup If(~cfg.ConstOn /\ OfSink(cs, "c") # <<>>, "C17:continuous-when-off")
        \cup If(sClean /\ sShould /\ sW # <<t>>, "C17:test-frame-missing")
        \cup If(~m0.taint["s"] /\ ~sShould /\ OfSink(cs, "s") # <<>>, "C17:test-without-request")
        \cup If("calls2" \in DOMAIN E /\ ProjSink(cs, "m") # E.calls2, "C17:motion-recording-disturbed")
        \cup If("err" \in DOMAIN E /\ E.err, "C13:valid-frame-rejected")
        \* ---------------- C09 at the processor: the first frame after start-up or a camera reset has nothing to be
        \* compared with, whatever it contains
        \cup If(m0.afterReset /\ E.motion, "C09:motion-on-first-frame-after-reset")
        \* ---------------- C12 recoverability: whatever failed, a recording is over once MaxF frames have gone by
        \cup If(inRec /\ ~clean /\ k1 >= MMax(cfg.MaxF, 1) /\ ~hasStop, "C12:recording-never-ends-after-failure")
  IN [b0 EXCEPT !.v = @ \cup viol,
                !.k = IF b0.open["m"] THEN k1 ELSE 0,
                !.mm = IF b0.open["m"] THEN mm1 ELSE 0,
                !.runLo = IF stopped THEN 0 ELSE lo1,
                !.runHi = IF stopped THEN 0 ELSE hi1,
                !.sPend = FALSE, !.afterReset = FALSE,
                !.taint["m"] = IF b0.open["m"] THEN @ ELSE FALSE]

FrameStep(m0, E) ==
  Only({FramePost(m0, b0, E) : b0 \in {FoldCalls([m0 EXCEPT !.acc = E.id], E.calls, E)}})

(* ---- a rejected frame / a reset ---- *)
InterruptPost(m0, b0, E) ==
  LET cs == E.calls
      bad == E.ev = "bad"
      viol ==
        If(bad /\ ~E.isbad, "C13:bad-frame-not-reported")
        \cup If(\E i \in DOMAIN cs : cs[i].op = "w", IF bad THEN "C13:write-on-bad-frame" ELSE "C12:write-on-reset")
        \cup If(\E i \in DOMAIN cs : cs[i].op = "start", IF bad THEN "C13:start-on-bad-frame" ELSE "C12:start-on-reset")
        \cup If(m0.open["m"] /\ b0.open["m"],
                IF bad THEN "C13:recording-not-ended" ELSE "C14:reset-keeps-recording")
      stopped == Has(cs, "m", "stop") /\ m0.open["m"]
  IN [b0 EXCEPT !.v = @ \cup viol, !.k = 0, !.mm = 0,
                !.runLo = 0,
                !.runHi = IF stopped THEN 0 ELSE @,
                !.afterReset = IF bad THEN @ ELSE TRUE,
                !.taint["m"] = IF b0.open["m"] THEN @ ELSE FALSE]

InterruptStep(m0, E) ==
  Only({InterruptPost(m0, b0, E) : b0 \in {FoldCalls(m0, E.calls, E)}})

MonStep(m, E) ==
  Only({ CASE E.ev = "frame"   -> FrameStep(m0, E)
           [] E.ev = "bad"     -> InterruptStep(m0, E)
           [] E.ev = "reset"   -> InterruptStep(m0, E)
           [] E.ev = "snapreq" -> \* an overlapping request leaves C17's domain (C12 still watches the protocol)
                                  [m0 EXCEPT !.sPend = @ \/ ~m0.open["s"],
                                             !.taint["s"] = @ \/ m0.open["s"] \/ m0.sPend]
           [] E.ev = "panic"   -> [m0 EXCEPT !.v = {"C12:panic"}]
           [] OTHER            -> m0
         : m0 \in {[m EXCEPT !.v = {}]} })
=============================================================================
