---------------------------- MODULE DetConfTrace ----------------------------
(* Conformance: every logged Detect / Reset of the real motionDetector is a  *)
(* step of Detector.tla with the same result, background and threshold.     *)
(* tie / slop are the two named float deviations (chosen per step).         *)
EXTENDS Detector, Json, TLC
VARIABLE l
Trace == ndJsonDeserialize("trace.ndjson")
T == Trace[l]
C0 == [w |-> 1, h |-> 1, edge |-> 0, T |-> 0, delta |-> 0, cnt |-> 1, gap |-> 1, one |-> TRUE, warmer |-> FALSE,
       dyn |-> FALSE, tmin |-> 0, tmax |-> 0, preview |-> 0, fixedCode |-> TRUE]
TInit == l = 1 /\ DInitWith(C0)
TCfg == /\ l <= Len(Trace) /\ T.ev = "dcfg" /\ l' = l + 1
        /\ LET c == [w |-> T.w, h |-> T.h, edge |-> T.edge, T |-> T.T, delta |-> T.delta, cnt |-> T.cnt, gap |-> T.gap,
                     one |-> T.one, warmer |-> T.warmer, dyn |-> T.dyn, tmin |-> T.tmin, tmax |-> T.tmax,
                     preview |-> T.preview, fixedCode |-> TRUE]
           IN /\ dc' = c
              /\ flCur' = 0 /\ flFull' = FALSE /\ flOld' = 0 /\ flSlots' = [i \in 0..c.gap |-> Zero(c)]
              /\ dfCur' = 0 /\ dfSlots' = [i \in 0..1 |-> Zero(c)]
              /\ firstDiff' = FALSE /\ prevFFC' = FALSE
              /\ bg' = Zero(c) /\ bgw' = Zero(c) /\ bgFrames' = 0 /\ thresh' = c.T /\ motion' = FALSE
(* which tie pixels the code lowered is read off the logged background *)
LoggedTies(tp) == IF dc.dyn THEN {{p \in tp : T.bg[p[1]][p[2]] = T.pix[p[1]][p[2]]}} ELSE {{}}
TFrame == /\ l <= Len(Trace) /\ T.ev = "dframe" /\ l' = l + 1
          /\ \E slop \in (IF dc.dyn THEN {-1, 0, 1} ELSE {0}) :
               Detect(T.pix, T.aff, LoggedTies, slop)
          /\ motion' = T.motion /\ thresh' = T.thresh
          /\ (dc.dyn => bg' = T.bg)
TReset == l <= Len(Trace) /\ T.ev = "dreset" /\ l' = l + 1 /\ DReset
TNext == TCfg \/ TFrame \/ TReset
=============================================================================
