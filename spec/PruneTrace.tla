----------------------------- MODULE PruneTrace -----------------------------
(* Runs of the real deleteExcessRecordings on a small file system mounted   *)
(* by the harness: the matching files (oldest first, sizes in blocks), the  *)
(* blocks available before, the files left afterwards and the error flag,   *)
(* compared with Prune!Expect.                                              *)
EXTENDS Integers, Sequences, Json, TLC
VARIABLE l
Trace == ndJsonDeserialize("trace.ndjson")
RECURSIVE Expect(_, _, _)
Low(a, total) == (a * 100) \div total <= 30
Expect(fs, a, total) == IF ~Low(a, total) THEN [left |-> fs, err |-> FALSE]
                        ELSE IF fs = <<>> THEN [left |-> <<>>, err |-> TRUE]
                        ELSE Expect(Tail(fs), a + Head(fs).blocks, total)
Names(fs) == [i \in DOMAIN fs |-> fs[i].name]
TInit == l = 1
TNext == /\ l <= Len(Trace) /\ l' = l + 1
         /\ \E E \in {Trace[l]} : \E x \in {Expect(E.files, E.avail, E.total)} :
              LET v == (IF E.err # x.err THEN {"PRUNE:error-flag"} ELSE {})
                       \cup (IF E.left # Names(x.left) THEN {"PRUNE:files-left"} ELSE {})
                       \cup (IF E.others_left # E.others THEN {"PRUNE:deleted-a-file-that-is-not-a-recording"} ELSE {})
              IN IF v = {} THEN TRUE ELSE PrintT(<<"VIOL", l, v>>)
Consumed == TLCGet("stats").diameter - 1 = Len(Trace)
=============================================================================
