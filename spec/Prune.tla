------------------------------- MODULE Prune -------------------------------
(***************************************************************************)
(* Beyond the listed properties: deleteExcessRecordings                    *)
(* (cmd/thermal-recorder/cptvfilerecorder.go), which the continuous        *)
(* recorder runs before every new file: while the space available to the   *)
(* daemon is at most 30 % of the file system, delete the oldest file       *)
(* matching *.cptv* in its directory (file names begin with the date, so   *)
(* lexical order is age order); fail when nothing is left to delete.       *)
(* Space is counted in file-system blocks: `avail` of `total`.             *)
(***************************************************************************)
EXTENDS Integers, Sequences, FiniteSets
CONSTANTS Total, MaxFiles, Sizes          \* blocks of the file system; bound on files; possible file sizes (blocks)
VARIABLES files,     \* recordings oldest first: sequence of sizes in blocks
          avail,     \* blocks available
          pc,        \* "loop" | "done" | "failed"
          deleted    \* history: what was deleted, in order (sizes), and the avail seen before each deletion
vars == <<files, avail, pc, deleted>>

Pct(a) == (a * 100) \div Total
Low(a) == Pct(a) <= 30

RECURSIVE Sum(_)
Sum(s) == IF s = <<>> THEN 0 ELSE Head(s) + Sum(Tail(s))

Init == /\ files \in UNION {[1..n -> Sizes] : n \in 0..MaxFiles}
        /\ avail \in 0..Total /\ avail + Sum(files) <= Total        \* the rest is used by something else
        /\ pc = "loop" /\ deleted = <<>>
Step == /\ pc = "loop"
        /\ IF ~Low(avail) THEN pc' = "done" /\ UNCHANGED <<files, avail, deleted>>
           ELSE IF files = <<>> THEN pc' = "failed" /\ UNCHANGED <<files, avail, deleted>>
           ELSE /\ files' = Tail(files) /\ avail' = avail + Head(files)
                /\ deleted' = Append(deleted, [size |-> Head(files), before |-> avail]) /\ UNCHANGED pc
Spec == Init /\ [][Step]_vars /\ WF_vars(Step)

(* the result as a function of the start state: what conformance compares with *)
RECURSIVE Expect(_, _)
Expect(fs, a) == IF ~Low(a) THEN [left |-> fs, err |-> FALSE]
                 ELSE IF fs = <<>> THEN [left |-> <<>>, err |-> TRUE]
                 ELSE Expect(Tail(fs), a + Head(fs))

OnlyWhileLow == \A i \in DOMAIN deleted : Low(deleted[i].before)      \* nothing is deleted while more than 30 % is available
Outcome == /\ (pc = "done" => ~Low(avail))
           /\ (pc = "failed" => Low(avail) /\ files = <<>>)
Terminates == <>(pc # "loop")
=============================================================================
