----------------------------- MODULE Lifecycle -----------------------------
(***************************************************************************)
(* Beyond the listed properties: the connection lifecycle of the daemon    *)
(* (cmd/thermal-recorder/main.go, runMain + handleConn).                   *)
(*                                                                         *)
(*   start -> listening -> header -> frames -> ended -> listening -> ...   *)
(*                 \________ (header cut short / unknown camera) __/       *)
(*                                                                         *)
(* One camera connection at a time; every connection gets a new processor  *)
(* and recorders; whatever handleConn derives from the camera header holds  *)
(* for that connection only.  The one piece of per-connection state that   *)
(* is visible from outside without any hook is the progress line           *)
(*      "<n> frames for this connection"                                   *)
(* which is due every 15 s of frames during the first minute of a          *)
(* connection and every 5 min of frames afterwards:                        *)
(*      Due(n, fps) == (n % (15*fps) = 0 /\ n <= 60*fps) \/ n % (300*fps) = 0 *)
(*                                                                         *)
(* The pinned commit scaled the two package-level interval variables by    *)
(* fps IN PLACE on every connection (finding F-C14-2): constant            *)
(* Compounding = TRUE is that behaviour - the intervals then depend on the *)
(* history of connections, and in wrap-around arithmetic (constant Wrap,   *)
(* 2^64 in the code) an even frame rate drives them to zero, where the     *)
(* first frame divides by zero.  Compounding = FALSE is the repaired code. *)
(***************************************************************************)
EXTENDS Integers, Sequences, FiniteSets, TLC

CONSTANTS FpsSet,        \* frame rates a camera may announce
          MaxConn,       \* connections per daemon run (bound)
          MaxFrames,     \* frames per connection (bound)
          Wrap,          \* integer arithmetic wraps at this value
          Compounding    \* TRUE: intervals scaled in place per connection (pinned commit)

VARIABLES phase,     \* "start" | "listening" | "header" | "frames" | "ended" | "crashed"
          fps,       \* frame rate announced on the current connection
          total,     \* frames read on the current connection
          nconn,     \* connections accepted so far
          ivFirst, ivLong,   \* the two intervals in force (frames)
          logged     \* progress lines printed on the current connection (set of n)

vars == <<phase, fps, total, nconn, ivFirst, ivLong, logged>>

Base1 == 15
Base2 == 300
Due(n, f) == (n % (Base1 * f) = 0 /\ n <= 60 * f) \/ n % (Base2 * f) = 0

Init == /\ phase = "start" /\ fps = 1 /\ total = 0 /\ nconn = 0
        /\ ivFirst = Base1 /\ ivLong = Base2 /\ logged = {}

(* net.Listen + "waiting for camera connection" *)
Listen == /\ phase \in {"start", "ended"} /\ phase' = "listening"
          /\ UNCHANGED <<fps, total, nconn, ivFirst, ivLong, logged>>

(* Accept + ReadHeaderInfo succeeded: "connection from ... @<fps>fps" *)
HeaderOk(f) ==
  /\ phase = "listening" /\ nconn < MaxConn
  /\ phase' = "header" /\ fps' = f /\ nconn' = nconn + 1 /\ total' = 0 /\ logged' = {}
  /\ ivFirst' = (IF Compounding THEN (ivFirst * f) % Wrap ELSE (Base1 * f) % Wrap)
  /\ ivLong'  = (IF Compounding THEN (ivLong * f) % Wrap ELSE (Base2 * f) % Wrap)

(* the connection dies inside the header, or announces a camera there is no parser for: handleConn returns an error *)
HeaderBad == /\ phase = "listening" /\ nconn < MaxConn
             /\ phase' = "ended" /\ nconn' = nconn + 1
             /\ UNCHANGED <<fps, total, ivFirst, ivLong, logged>>

(* recorders and processor created: "reading frames" *)
Reading == /\ phase = "header" /\ phase' = "frames"
           /\ UNCHANGED <<fps, total, nconn, ivFirst, ivLong, logged>>

(* k more frames are read (valid or bad ones alike; 'clear' markers are not frames) *)
Frames(k) ==
  /\ phase = "frames" /\ k >= 1 /\ total + k <= MaxFrames
  /\ IF ivFirst = 0 \/ ivLong = 0
     THEN /\ phase' = "crashed"              \* totalFrames % 0: runtime panic, the daemon dies
          /\ UNCHANGED <<fps, total, nconn, ivFirst, ivLong, logged>>
     ELSE /\ total' = total + k
          /\ logged' = logged \cup {n \in (total + 1)..(total + k) : (n % ivFirst = 0 /\ n <= 60 * fps) \/ n % ivLong = 0}
          /\ UNCHANGED <<phase, fps, nconn, ivFirst, ivLong>>

(* a 'clear' marker between two frames: processor.Reset, the connection goes on *)
Clear == phase = "frames" /\ UNCHANGED vars

(* EOF / read error: "camera connection ended with: ..." and back to the accept loop *)
End == /\ phase \in {"header", "frames"} /\ phase' = "ended"
       /\ UNCHANGED <<fps, total, nconn, ivFirst, ivLong, logged>>

Next == Listen \/ (\E f \in FpsSet : HeaderOk(f)) \/ HeaderBad \/ Reading \/ (\E k \in 1..3 : Frames(k)) \/ End
Spec == Init /\ [][Next]_vars /\ WF_vars(Listen)

TypeOK == /\ phase \in {"start", "listening", "header", "frames", "ended", "crashed"}
          /\ total \in 0..MaxFrames /\ nconn \in 0..MaxConn /\ fps \in FpsSet \cup {1}

(* what a connection derives from its header depends on that header only *)
IntervalsFromHeader == phase \in {"header", "frames"} => ivFirst = (Base1 * fps) % Wrap /\ ivLong = (Base2 * fps) % Wrap
(* the progress lines of a connection are exactly the due ones *)
ProgressLines == phase \in {"frames", "ended"} /\ (Base2 * fps) < Wrap => logged = {n \in 1..total : Due(n, fps)}
NeverCrashes == phase # "crashed"
(* whatever ends a connection, the daemon listens again *)
ListensAgain == (phase = "ended") ~> (phase = "listening")
=============================================================================
