------------------------------- MODULE TwTrace -------------------------------
(***************************************************************************)
(* C18 observer over runs of the real thermal-writer handleConn: what was  *)
(* sent on the socket (frame ids, how many completely), what the CPTR      *)
(* files contain (per file: well-formed?, frame ids, each frame            *)
(* byte-identical to what was sent?), whether the writer goroutine         *)
(* finished, race-detector reports.                                        *)
(***************************************************************************)
EXTENDS Integers, Sequences, FiniteSets, Json, TLC
VARIABLE l
Trace == ndJsonDeserialize("trace.ndjson")
RECURSIVE Cat(_)
Cat(fs) == IF fs = <<>> THEN <<>> ELSE Head(fs) \o Cat(Tail(fs))
RunViol(E) ==
  LET ids == Cat([i \in 1..Len(E.files) |-> E.files[i].ids])
      want == [i \in 1..E.complete |-> i]
  IN (IF ~E.exited THEN {"C18:writer-stalled"} ELSE {})
     \cup (IF \E i \in 1..Len(E.files) : ~E.files[i].wellformed THEN {"C18:malformed-cptr-file"} ELSE {})
     \cup (IF \E i \in 1..Len(E.files) : ~E.files[i].intact THEN {"C18:frame-bytes-corrupted"} ELSE {})
     \cup (IF E.exited /\ ids # want THEN
             (IF Len(ids) < Len(want) /\ ids = SubSeq(want, 1, Len(ids)) THEN {"C18:frames-not-flushed-at-close"}
              ELSE {"C18:frames-lost-duplicated-or-reordered"}) ELSE {})
     \cup (IF E.races > 0 THEN {"C18:data-race"} ELSE {})
     \cup (IF E.panicked THEN {"C18:panic"} ELSE {})
TInit == l = 1
TNext == /\ l <= Len(Trace) /\ l' = l + 1
         /\ \E E \in {Trace[l]} : \E v \in {IF E.ev = "twrun" THEN RunViol(E) ELSE {}} :
              IF v = {} THEN TRUE ELSE PrintT(<<"VIOL", l, v>>)
Consumed == TLCGet("stats").diameter - 1 = Len(Trace)
=============================================================================
