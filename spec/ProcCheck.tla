---------------------------- MODULE ProcCheck ----------------------------
(***************************************************************************)
(* Design check: every behaviour of Processor.tla, for every small         *)
(* configuration chosen in Init and every environment / fault placement,   *)
(* satisfies every monitor of ProcMon.tla at every step.                   *)
(***************************************************************************)
EXTENDS Processor, ProcMon

VARIABLES mon

cvars == <<N, TrigF, MinF, MaxF, ConstOn, fid, ring, cur, full, oldest,
           rec, written, until, trig, cr, snapReq, snapRec, snapN, out, mon>>

CfgRec == [N |-> N, TrigF |-> TrigF, MinF |-> MinF, MaxF |-> MaxF, ConstOn |-> ConstOn, SnapLen |-> SnapLen,
           winS |-> 10, winE |-> 20]
NowOf(b) == IF b THEN 15 ELSE 30

CInit == Init /\ mon = MonInit(CfgRec)

(* environment assumption = the detector's contract (checked on Detector.tla): never motion on the first frame *)
(* after start-up or a camera reset                                                                           *)
CFrame(e) == /\ (e.motion => ~mon.afterReset)
             /\ Frame(e)
             /\ \E E \in {[ev |-> "frame", id |-> fid', motion |-> e.motion, now |-> NowOf(e.win),
                            disk |-> e.disk, calls |-> out']} : mon' = MonStep(mon, E)
CBad(a, b) == BadFrame(a, b) /\ \E E \in {[ev |-> "bad", isbad |-> TRUE, calls |-> out']} : mon' = MonStep(mon, E)
CReset(a)  == Reset(a) /\ \E E \in {[ev |-> "reset", calls |-> out']} : mon' = MonStep(mon, E)
CSnap      == SnapRequest /\ mon' = MonStep(mon, [ev |-> "snapreq"])

CNextRefusals == \/ FrameAny(0, CFrame)
                 \/ CBad(TRUE, TRUE) \/ CReset(TRUE) \/ CSnap
CNextFaults   == \/ FrameAny(1, CFrame)
                 \/ \E a, b \in BOOLEAN : CBad(a, b)
                 \/ \E a \in BOOLEAN : CReset(a)
                 \/ CSnap

NoViolation == mon.v = {}

(* The monitors' bookkeeping agrees with the design state (keeps the monitors honest) *)
MonAgrees == /\ mon.open["m"] = rec
             /\ mon.acc = fid
             /\ (rec /\ ~mon.taint["m"] => mon.k = written)
             /\ mon.open["s"] = snapRec

(* output-only variables hidden from the fingerprint *)
CView == <<N, TrigF, MinF, MaxF, ConstOn, fid, ring, cur, full, oldest,
           rec, written, until, trig, cr, snapReq, snapRec, snapN, mon>>
=============================================================================
