------------------------------ MODULE ThrTrace ------------------------------
(* Traces of the real ThrottledRecorder judged by the observer of ThrMon.tla. *)
EXTENDS ThrMon, Json, TLC
VARIABLES l, mon
Trace == ndJsonDeserialize("trace.ndjson")
TInit == l = 1 /\ mon = ThrMonInit([Cap |-> 1, MinLen |-> 1, K |-> 1])
TNext == /\ l <= Len(Trace) /\ l' = l + 1
         /\ \E E \in {Trace[l]} :
              IF E.ev = "new" THEN mon' = ThrMonInit([Cap |-> E.Cap, MinLen |-> E.MinLen, K |-> E.K])
              ELSE IF E.ev = "pframe" THEN mon' = [mon EXCEPT !.disk = E.disk]      \* a frame enters the processor in front
              ELSE \E m1 \in {ThrMonStep(mon, E)} :
                     /\ mon' = m1
                     /\ (IF m1.v = {} THEN TRUE ELSE PrintT(<<"VIOL", l, m1.v>>))
Consumed == TLCGet("stats").diameter - 1 = Len(Trace)
=============================================================================
