--------------------------- MODULE ProcMonTrace ---------------------------
(***************************************************************************)
(* The monitors of ProcMon.tla evaluated by TLC over traces recorded from  *)
(* the real MotionProcessor (many traces concatenated; a "cfg" event       *)
(* starts a new one).  The observer is total, so TLC walks the whole file; *)
(* each violated clause is printed as  <<"VIOL", line, {clauses}>>  and    *)
(* the number of lines consumed is checked by the postcondition.           *)
(***************************************************************************)
EXTENDS ProcMon, Json, TLC

VARIABLES l, mon

Trace == ndJsonDeserialize("trace.ndjson")

Cfg0 == [N |-> 1, TrigF |-> 0, MinF |-> 0, MaxF |-> 0, ConstOn |-> FALSE, SnapLen |-> 20, winS |-> 0, winE |-> 0]

TInit == l = 1 /\ mon = MonInit(Cfg0)

TNext == /\ l <= Len(Trace)
         /\ l' = l + 1
         /\ \E E \in {Trace[l]} :
              IF E.ev = "cfg"
              THEN mon' = MonInit([N |-> E.N, TrigF |-> E.TrigF, MinF |-> E.MinF, MaxF |-> E.MaxF,
                                   ConstOn |-> E.ConstOn, SnapLen |-> E.SnapLen, winS |-> E.winS, winE |-> E.winE])
              ELSE IF E.ev = "cfgparse"
              THEN \* C03's quantifier "for all 0 <= min-secs <= max-secs": the daemon accepts every such configuration
                   \* and builds its processor with exactly these lengths
                   /\ UNCHANGED mon
                   /\ LET valid == 0 <= E.min /\ E.min <= E.max /\ 0 <= E.preview
                          v == (IF valid /\ E.err # "" THEN {"C03:valid-recording-lengths-rejected"} ELSE {})
                               \cup (IF valid /\ E.err = "" /\ <<E.got_min, E.got_max, E.got_preview>> # <<E.min, E.max, E.preview>>
                                     THEN {"C03:recording-lengths-misread"} ELSE {})
                      IN IF v = {} THEN TRUE ELSE PrintT(<<"VIOL", l, v>>)
              ELSE IF E.ev = "cfgwindow"
              THEN \* C04's window at the daemon's front door: the window the processor is built with answers Active, NextStart
                   \* and NextEnd at every scripted instant as window.New(start, stop, latitude, longitude) of the configured
                   \* values does (absolute and sunrise/sunset-relative windows alike)
                   /\ UNCHANGED mon
                   /\ LET v == (IF E.err # "" THEN {"C04:configured-window-rejected"} ELSE {})
                               \cup (IF E.err = "" /\ E.got # E.ref THEN {"C04:configured-window-not-in-force"} ELSE {})
                      IN IF v = {} THEN TRUE ELSE PrintT(<<"VIOL", l, v>>)
              ELSE IF E.ev = "longfiles"
              THEN \* C03 / C17 for recording lengths beyond 16 bits (max-secs*fps > 65535), counting sinks behind the real processor:
                   \* every finished continuous file holds max-secs*fps + 1 frames; under uninterrupted motion every motion
                   \* recording is cut at max-secs*fps frames, never later and (min-secs >= 1: every motion frame extends it) never earlier
                   /\ UNCHANGED mon
                   /\ LET MaxF == E.max * E.fps
                          v == (IF \E i \in DOMAIN E.clens : E.clens[i] # MaxF + 1 THEN {"C17:continuous-file-length"} ELSE {})
                               \cup (IF E.motion /\ \E i \in DOMAIN E.mlens : E.mlens[i] > MaxF THEN {"C03:exceeds-max"} ELSE {})
                               \cup (IF E.motion /\ E.min >= 1 /\ \E i \in DOMAIN E.mlens : E.mlens[i] < MaxF THEN {"C03:cut-before-max-under-motion"} ELSE {})
                      IN IF v = {} THEN TRUE ELSE PrintT(<<"VIOL", l, v>>)
              ELSE IF E.ev = "diskcheck"
              THEN \* C04's disk gate at the storage layer: passes iff the space available to the daemon (measured before
                   \* and after the call, requests within that interval are not judged) is at least min-disk-space-mb
                   /\ UNCHANGED mon
                   /\ LET v == (IF E.err THEN {"C04:disk-check-failed"} ELSE {})
                               \cup (IF ~E.err /\ E.mb <= E.avail_lo /\ ~E.ok THEN {"C04:disk-check-refuses-with-enough-space"} ELSE {})
                               \cup (IF ~E.err /\ E.mb > E.avail_hi /\ E.ok THEN {"C04:disk-check-passes-below-min-disk-space"} ELSE {})
                      IN IF v = {} THEN TRUE ELSE PrintT(<<"VIOL", l, v>>)
              ELSE IF E.ev = "realsinks"
              THEN \* real CPTV recorders on all three sinks, output directory taken away and put back: no panic, every
                   \* published file decodes, and the final isolated blip at frame E.blip is recorded as C02/C03 demand
                   /\ UNCHANGED mon
                   /\ LET lo == IF E.blip - (E.N - 1) > 1 THEN E.blip - (E.N - 1) ELSE 1
                          hi == E.blip + (IF E.MinF > 1 THEN E.MinF - 1 ELSE 0)
                          want == [i \in 1..(hi - lo + 1) |-> lo + i - 1]
                          v == (IF E.panic # "" THEN {"C12:panic"} ELSE {})
                               \cup (IF E.panic # "" /\ "after_bad" \in DOMAIN E /\ E.after_bad
                                     THEN {"C13:processing-does-not-resume-after-bad-frame"} ELSE {})
                               \cup (IF E.undecodable > 0 THEN {"C12:published-file-undecodable-after-failures"} ELSE {})
                               \cup (IF E.panic = "" /\ E.last # want THEN {"C12:not-recording-normally-after-failures"} ELSE {})
                      IN IF v = {} THEN TRUE ELSE PrintT(<<"VIOL", l, v>>)
              ELSE \E m1 \in {MonStep(mon, E)} :
                     /\ mon' = m1
                     /\ (IF m1.v = {} THEN TRUE ELSE PrintT(<<"VIOL", l, m1.v>>))

Consumed == TLCGet("stats").diameter - 1 = Len(Trace)
=============================================================================
