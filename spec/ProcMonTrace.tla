--------------------------- MODULE ProcMonTrace ---------------------------
(***************************************************************************)
(* The monitors of ProcMon.tla evaluated by TLC over traces recorded from  *)
(* the real MotionProcessor (many traces concatenated; a "cfg" event       *)
(* starts a new one).  The observer is total, so TLC walks the whole file; *)
(* each violated clause is printed as  <<"VIOL", line, {clauses}>>  and    *)
(* the number of lines consumed is checked by the postcondition.           *)
(***************************************************************************)
EXTENDS ProcMon, Json, TLC

VARIABLES l, mon

Trace == ndJsonDeserialize("trace.ndjson")

Cfg0 == [N |-> 1, TrigF |-> 0, MinF |-> 0, MaxF |-> 0, ConstOn |-> FALSE, SnapLen |-> 20, winS |-> 0, winE |-> 0]

TInit == l = 1 /\ mon = MonInit(Cfg0)

TNext == /\ l <= Len(Trace)
         /\ l' = l + 1
         /\ \E E \in {Trace[l]} :
              IF E.ev = "cfg"
              THEN mon' = MonInit([N |-> E.N, TrigF |-> E.TrigF, MinF |-> E.MinF, MaxF |-> E.MaxF,
                                   ConstOn |-> E.ConstOn, SnapLen |-> E.SnapLen, winS |-> E.winS, winE |-> E.winE])
              ELSE \E m1 \in {MonStep(mon, E)} :
                     /\ mon' = m1
                     /\ (IF m1.v = {} THEN TRUE ELSE PrintT(<<"VIOL", l, m1.v>>))

Consumed == TLCGet("stats").diameter - 1 = Len(Trace)
=============================================================================
