----------------------------- MODULE SystemTrace -----------------------------
(***************************************************************************)
(* End to end: the unmodified runMain() of the daemon is fed a generated   *)
(* config.toml and a scripted byte stream on the frame socket.  This       *)
(* module is the composition  frame socket -> detector verdicts ->         *)
(* Processor.tla -> files, with the configuration constants taken from the *)
(* GENERATED settings (N = preview-secs*fps + trigger-frames, MinF =       *)
(* min-secs*fps, MaxF = max-secs*fps, continuous recorder on/off).  It     *)
(* steps Processor.tla over the frames that were sent (motion bit = the    *)
(* scene toggled, which the fixed-threshold one-diff detector reports),    *)
(* collects the files the specification says must result, and compares     *)
(* them with the frame ids decoded from the files the daemon actually left *)
(* in its output directory (C11 second sentence, C14 delivery, C17 end to  *)
(* end).                                                                   *)
(***************************************************************************)
EXTENDS Processor, Json, TLC, FiniteSets

VARIABLES l, mfiles, mcur, cfiles, ccur,
          nStarts, nBad, nConn,         \* predicted: motion recordings started, bad frames, connections (this daemon run)
          thr                           \* the throttle between processor and motion files (handleConn wires one per
                                        \* connection): [on, min = (min-secs+preview-secs)*fps, tok, rec]; its refill is
                                        \* not modelled here - the runs that switch it on use a refill period (24 h) that
                                        \* cannot earn a frame within the run (Throttle.tla has the clock)

Trace == ndJsonDeserialize("trace.ndjson")
T == Trace[l]
svars == <<pvars, l, mfiles, mcur, cfiles, ccur, nStarts, nBad, nConn, thr>>
ThrOff == [on |-> FALSE, min |-> 0, cap |-> 0, tok |-> 0, rec |-> FALSE, win |-> TRUE, lost |-> FALSE, trigs |-> {}]
\* thr.trigs: <<a, t>> for every recording the processor model started on this connection: a = the first pre-trigger
\* frame handed to the motion sink, t = the trigger frame (C02, judged on the files in TFiles)
\* thr.lost: the temp file of the motion recording in progress was unlinked under the daemon (storage failure scripted
\* by the harness): the recording goes on, but its final rename fails and no file is published for it
\* thr.win: whether the recording window read from config.toml is open during the run (runs are scripted with
\* windows that lie an hour around or an hour after the current time)
RECURSIVE SumLen(_, _)
SumLen(fs, k) == IF k = 0 THEN 0 ELSE Len(fs[k]) + SumLen(fs, k - 1)      \* frames in the first k files

TInit == /\ l = 1 /\ mfiles = <<>> /\ mcur = <<>> /\ cfiles = <<>> /\ ccur = <<>> /\ nStarts = 0 /\ nBad = 0 /\ nConn = 0 /\ thr = ThrOff
         /\ N = 1 /\ TrigF = 0 /\ MinF = 0 /\ MaxF = 0 /\ ConstOn = FALSE /\ InitState

(* fold the calls of one step into the predicted files *)
RECURSIVE Collect(_, _)
Collect(st, cs) ==
  IF cs = <<>> THEN st ELSE
  LET c == Head(cs)
      t == st.thr
      \* ThrottledRecorder (throttle/throttled_recorder.go) without refill: StartRecording / WriteFrame / StopRecording
      canStart == t.tok >= t.min
      st1 == CASE c.s = "m" /\ c.op = "start" /\ ~t.on -> [st EXCEPT !.mcur = <<>>, !.nst = @ + 1]
               [] c.s = "m" /\ c.op = "w" /\ ~t.on     -> [st EXCEPT !.mcur = Append(@, c.id)]
               [] c.s = "m" /\ c.op = "stop" /\ ~t.on  -> IF t.lost THEN [st EXCEPT !.mcur = <<>>, !.thr.lost = FALSE]
                                                            ELSE [st EXCEPT !.mfiles = Append(@, st.mcur), !.mcur = <<>>]
               [] c.s = "m" /\ c.op = "start" /\ t.on  -> IF canStart THEN [st EXCEPT !.mcur = <<>>, !.thr.rec = TRUE, !.nst = @ + 1] ELSE st
               [] c.s = "m" /\ c.op = "w" /\ t.on      ->
                    IF ~t.rec /\ ~canStart THEN st                           \* suppressed
                    ELSE LET cur0 == IF t.rec THEN st.mcur ELSE <<>> IN        \* (re)started in the middle of a trigger
                         LET n1 == IF t.rec THEN st.nst ELSE st.nst + 1 IN
                         IF t.tok > 0 THEN [st EXCEPT !.mcur = Append(cur0, c.id), !.thr.tok = @ - 1, !.thr.rec = TRUE, !.nst = n1]
                         ELSE [st EXCEPT !.mfiles = Append(@, cur0), !.mcur = <<>>, !.thr.rec = FALSE, !.nst = n1]   \* cut
               [] c.s = "m" /\ c.op = "stop" /\ t.on   -> IF t.rec THEN [st EXCEPT !.mfiles = Append(@, st.mcur), !.mcur = <<>>, !.thr.rec = FALSE] ELSE st
               [] c.s = "c" /\ c.op = "start" -> [st EXCEPT !.ccur = <<>>]
               [] c.s = "c" /\ c.op = "w"     -> [st EXCEPT !.ccur = Append(@, c.id)]
               [] c.s = "c" /\ c.op = "stop"  -> (IF st.ccur = <<>> THEN st ELSE [st EXCEPT !.cfiles = Append(@, st.ccur), !.ccur = <<>>])
               [] OTHER -> st
  IN Collect(st1, Tail(cs))
NewTrigs(cs, tid) ==
  LET starts == {i \in DOMAIN cs : cs[i].s = "m" /\ cs[i].op = "start"}
  IN {<<cs[j].id, tid>> : j \in {j \in DOMAIN cs : /\ cs[j].s = "m" /\ cs[j].op = "w"
                                                    /\ \E i \in starts : i < j /\ \A k \in (i + 1)..(j - 1) : ~(cs[k].s = "m" /\ cs[k].op = "w")}}
UpdT(tid) ==
       /\ \E st \in {Collect([mfiles |-> mfiles, mcur |-> mcur, cfiles |-> cfiles, ccur |-> ccur, thr |-> thr, nst |-> nStarts], out')} :
            mfiles' = st.mfiles /\ mcur' = st.mcur /\ cfiles' = st.cfiles /\ ccur' = st.ccur
            /\ thr' = [st.thr EXCEPT !.trigs = @ \cup (IF tid = 0 THEN {} ELSE NewTrigs(out', tid))]
            /\ nStarts' = st.nst         \* recordings started at the storage layer (what brackets automatic FFC)
       /\ UNCHANGED nConn
Upd == UpdT(0)

AllOk(mo) == [motion |-> mo, win |-> thr.win, disk |-> TRUE, mStart |-> TRUE, mPre |-> 0, mW |-> TRUE, mStop |-> TRUE,
              cStart |-> TRUE, cW |-> TRUE, cStop |-> TRUE, sStart |-> TRUE, sW |-> TRUE, sStop |-> TRUE]

TConn == /\ T.ev = "conn"          \* a new camera connection: new processor, settings from the generated config
         /\ N' = T.N /\ TrigF' = T.TrigF /\ MinF' = T.MinF /\ MaxF' = T.MaxF /\ ConstOn' = T.ConstOn
         /\ fid' = T.firstid - 1 /\ ring' = [i \in 0..(MaxN - 1) |-> 0] /\ cur' = 0 /\ full' = FALSE /\ oldest' = 0
         /\ rec' = FALSE /\ written' = 0 /\ until' = 0 /\ trig' = 0
         /\ cr' = 0 /\ snapReq' = FALSE /\ snapRec' = FALSE /\ snapN' = 0 /\ out' = <<>>
         /\ mcur' = <<>> /\ ccur' = <<>>       \* an interrupted motion recording is discarded; an unfinished continuous file has no .cptv name
         /\ mfiles' = (IF T.newrun THEN <<>> ELSE mfiles)        \* a new daemon run starts with an empty directory
         /\ cfiles' = (IF T.newrun THEN <<>> ELSE cfiles)
         /\ nStarts' = (IF T.newrun THEN 0 ELSE nStarts) /\ nBad' = (IF T.newrun THEN 0 ELSE nBad)
         /\ nConn' = (IF T.newrun THEN 1 ELSE nConn + 1)
         /\ thr' = (IF "ThrCap" \in DOMAIN T THEN [on |-> TRUE, min |-> T.ThrMin, cap |-> T.ThrCap, tok |-> T.ThrCap, rec |-> FALSE, win |-> TRUE, lost |-> FALSE, trigs |-> {}] ELSE [ThrOff EXCEPT !.win = (IF "WinOpen" \in DOMAIN T THEN T.WinOpen ELSE TRUE)])
TFrame == T.ev = "frame" /\ Frame(AllOk(T.motion)) /\ fid' = T.id /\ UpdT(T.id) /\ UNCHANGED nBad
TClear == T.ev = "clear" /\ Reset(TRUE) /\ Upd /\ UNCHANGED nBad
TBad   == T.ev = "bad" /\ BadFrame(TRUE, TRUE) /\ Upd /\ nBad' = nBad + 1
TRmTemps == /\ T.ev = "rmtemps" /\ ~thr.on          \* every *.cptv.temp of the output directory is unlinked (not the continuous recorder's)
            /\ thr' = [thr EXCEPT !.lost = rec]
            /\ UNCHANGED <<pvars, mfiles, mcur, cfiles, ccur, nStarts, nBad, nConn>>
(* what the daemon told the other services over the system bus (fake bus): automatic FFC is switched on at every  *)
(* connection and off / on around every motion recording; each bad frame is reported as a 'bad-thermal-frame'      *)
(* event and answered with a camera restart request                                                              *)
TBus == /\ T.ev = "bus" /\ UNCHANGED <<pvars, mfiles, mcur, cfiles, ccur, nStarts, nBad, nConn, thr>>
        /\ LET offs == Cardinality({i \in DOMAIN T.ffc : ~T.ffc[i]})
               ons  == Cardinality({i \in DOMAIN T.ffc : T.ffc[i]})
               v == (IF T.restarts # nBad THEN {"SYS:camera-restart-requests"} ELSE {})
                    \cup (IF T.badevents # nBad THEN {"SYS:bad-frame-events"} ELSE {})
                    \cup (IF T.ntest = 0 /\ offs # nStarts THEN {"SYS:auto-ffc-not-disabled-per-recording"} ELSE {})
                    \cup (IF T.ntest = 0 /\ \E i \in 1..(Len(T.ffc) - 1) : ~T.ffc[i] /\ ~T.ffc[i + 1] THEN {"SYS:auto-ffc-left-disabled"} ELSE {})
                    \cup (IF T.ntest = 0 /\ T.ffc # <<>> /\ ~T.ffc[1] THEN {"SYS:auto-ffc-not-enabled-at-connect"} ELSE {})
           IN IF v = {} THEN TRUE ELSE PrintT(<<"VIOL", l, v, nStarts, nBad>>)
(* The output directory holds the motion recordings and, when test recordings were requested (ntest), one file   *)
(* of SnapLen+1 consecutive frames per request; the test files are what is left after removing the predicted     *)
(* motion files.                                                                                                *)
Consec(f) == \A i \in 1..(Len(f) - 1) : f[i + 1] = f[i] + 1
TFiles == /\ T.ev = "files" /\ UNCHANGED <<pvars, mfiles, mcur, cfiles, ccur>>
          /\ UNCHANGED <<nStarts, nBad, nConn, thr>>
          /\ LET ntest == IF "ntest" \in DOMAIN T THEN T.ntest ELSE 0
                 inPred(f) == \E i \in DOMAIN mfiles : mfiles[i] = f
                 inObs(f) == \E i \in DOMAIN T.motion : T.motion[i] = f
                 extra == SelectSeq(T.motion, LAMBDA f : ~inPred(f))
                 missing == SelectSeq(mfiles, LAMBDA f : ~inObs(f))
                 v == (IF ntest = 0 /\ T.motion # mfiles THEN {"SYS:motion-files-differ"} ELSE {})
                      \cup (IF ntest > 0 /\ missing # <<>> THEN {"SYS:motion-files-differ"} ELSE {})
                      \cup (IF ntest > 0 /\ (Len(extra) # ntest \/ \E i \in DOMAIN extra : Len(extra[i]) # SnapLen + 1 \/ ~Consec(extra[i]))
                            THEN {"SYS:test-recording-files-wrong"} ELSE {})
                      \cup (IF T.constant # cfiles THEN {"SYS:continuous-files-differ"} ELSE {})
                      \* throttle on, one connection, no refill within the run - directly on the files, no prediction needed:
                      \* C05 the frames stored never exceed the bucket; C06 every file was started with at least one
                      \* minimum-length recording of budget left
                      \cup (IF thr.on /\ nConn = 1 /\ SumLen(T.motion, Len(T.motion)) > thr.cap THEN {"SYS:thr-budget-exceeded"} ELSE {})
                      \cup (IF thr.on /\ nConn = 1 /\ (\E k \in DOMAIN T.motion : SumLen(T.motion, k - 1) + thr.min > thr.cap)
                            THEN {"SYS:thr-start-without-full-clip"} ELSE {})
                      \* C02 on the files themselves, throttled or not: a file that begins with the first pre-trigger frame of
                      \* a trigger also holds that trigger's frame t (whenever min-secs*fps >= trigger-frames the throttle's
                      \* start threshold (min-secs+preview-secs)*fps covers the pre-trigger frames and t)
                      \cup (IF nConn = 1 /\ MinF >= TrigF /\ ~thr.lost /\
                               (\E k \in DOMAIN T.motion : \E p \in thr.trigs :
                                   /\ T.motion[k] # <<>> /\ T.motion[k][1] = p[1]
                                   /\ \A i \in DOMAIN T.motion[k] : T.motion[k][i] # p[2])
                            THEN {"SYS:file-with-preview-lacks-trigger-frame"} ELSE {})
             IN IF v = {} THEN TRUE ELSE PrintT(<<"VIOL", l, v, mfiles, cfiles>>)
TNext == l <= Len(Trace) /\ l' = l + 1 /\ (TConn \/ TFrame \/ TClear \/ TBad \/ TFiles \/ TBus \/ TRmTemps)
Consumed == TLCGet("stats").diameter - 1 = Len(Trace)
=============================================================================
