------------------------------ MODULE RawFrame ------------------------------
(***************************************************************************)
(* The raw frame formats the recorder accepts, as decode operators over    *)
(* byte sequences, and the bad-frame rule of C13:                          *)
(*   Lepton 3 (lepton3.ParseRawFrame): 640 telemetry bytes (16-bit words,  *)
(*     big endian; 32-bit values low word first), then h*w pixels, 16-bit  *)
(*     big endian, row major                                               *)
(*   Boson (cmd/thermal-recorder/boson.go): h*w pixels, 16-bit little      *)
(*     endian, row major, fixed synthetic telemetry                        *)
(*   bad frame <=> some pixel outside the edge border is zero, where the   *)
(*     border is edge-pixels wide on all four sides                        *)
(* RawTrace evaluates these on the bytes the harness fed to the real       *)
(* parsers and compares with what they returned.                           *)
(***************************************************************************)
EXTENDS Integers, Sequences, FiniteSets, Json, TLC

TelemetryBytes == 640
Word(raw, k) == raw[2 * k + 1] * 256 + raw[2 * k + 2]                  \* k-th 16-bit word (0-based), Big16
Long(raw, k) == Word(raw, k) + 65536 * Word(raw, k + 1)                \* 32-bit value, low word first
LeptonPix(raw, w, y, x) == LET o == TelemetryBytes + 2 * ((y - 1) * w + (x - 1)) IN raw[o + 1] * 256 + raw[o + 2]
BosonPix(raw, w, y, x) == LET o == 2 * ((y - 1) * w + (x - 1)) IN raw[o + 1] + 256 * raw[o + 2]
PixOf(E, y, x) == IF E.fmt = "boson" THEN BosonPix(E.bytes, E.w, y, x) ELSE LeptonPix(E.bytes, E.w, y, x)
OnEdge(E, y, x) == y <= E.edge \/ x <= E.edge \/ y > E.h - E.edge \/ x > E.w - E.edge
IsBad(E) == \E y \in 1..E.h, x \in 1..E.w : ~OnEdge(E, y, x) /\ PixOf(E, y, x) = 0
Decoded(E) == [y \in 1..E.h |-> [x \in 1..E.w |-> PixOf(E, y, x)]]

VARIABLE l
Trace == ndJsonDeserialize("trace.ndjson")
RawViol(E) ==
  (IF IsBad(E) /\ ~E.bad THEN {"C13:bad-frame-not-detected"} ELSE {})
  \cup (IF ~IsBad(E) /\ (E.bad \/ E.othererr) THEN {"C13:valid-frame-rejected"} ELSE {})
  \* C08 at the parser: a frame whose only zero pixels lie in the edge border is treated exactly like its twin with
  \* non-zero border values (accepted), so border values never decide whether a frame reaches detector and recording
  \cup (IF ~IsBad(E) /\ E.bad /\ (\E y \in 1..E.h, x \in 1..E.w : OnEdge(E, y, x) /\ PixOf(E, y, x) = 0)
        THEN {"C08:border-pixel-rejects-frame"} ELSE {})
  \cup (IF ~IsBad(E) /\ ~E.bad /\ ~E.othererr /\ E.pix # Decoded(E) THEN {"C13:pixels-decoded-wrong"} ELSE {})
  \cup (IF E.fmt = "lepton" /\ ~IsBad(E) /\ ~E.bad /\ ~E.othererr /\
           (E.timeon # Long(E.bytes, 1) \/ E.lastffc # Long(E.bytes, 30) \/ E.framecount # Long(E.bytes, 20)
            \/ E.framemean # Word(E.bytes, 22) \/ E.tempck # Word(E.bytes, 24) \/ E.lastffctempck # Word(E.bytes, 29))
        THEN {"C13:telemetry-decoded-wrong"} ELSE {})
TInit == l = 1
TNext == /\ l <= Len(Trace) /\ l' = l + 1
         /\ \E E \in {Trace[l]} : \E v \in {IF E.ev = "raw" THEN RawViol(E)
                                            ELSE IF E.ev = "parser" /\ ~E.ok THEN {"C13:no-parser-for-camera"} ELSE {}} :
              IF v = {} THEN TRUE ELSE PrintT(<<"VIOL", l, v>>)
Consumed == TLCGet("stats").diameter - 1 = Len(Trace)
=============================================================================
