---------------------------- MODULE FileRecorder ----------------------------
(***************************************************************************)
(* cmd/thermal-recorder/cptvfilerecorder.go on top of go-cptv's FileWriter, *)
(* at the grain of the file-system calls it issues, for the directory the  *)
(* start-up clean-up is given.                                             *)
(*   StartRecording  = CreateTemp ; CreateScratch ; (header + frames go to *)
(*                     the scratch file through a 4 KB buffer)             *)
(*   StopRecording   = writer.Close() = FlushScratch ; Compress (gzip of   *)
(*                     the scratch file into X.cptv.temp, several writes) ;*)
(*                     CloseTemp ; DeleteScratch ;  then Rename -> X.cptv  *)
(*   Stop()          = the same Close(), then Remove(X.cptv.temp)          *)
(* Crash (process kill) is possible in every state; Cleanup is             *)
(* deleteTempFiles at the next start-up: it removes the kinds in CleanKinds *)
(* (measured on the real function and bound as a constant in trace mode).  *)
(* A file is [kind, id, content]; kinds: "final" = X.cptv, "temp" =         *)
(* X.cptv.temp, "scratch" = X.cptv.temp.tmp.                               *)
(* RenameEarly = TRUE models the mutation "rename before the data is       *)
(* complete" (for the self-test of the invariants).                        *)
(***************************************************************************)
EXTENDS Integers, FiniteSets

CONSTANTS MaxRec, CleanKinds, RenameEarly

VARIABLES dir,        \* set of files
          cur,        \* id of the recording in progress (0 = none)
          phase,      \* progress of the recording in progress
          nrec,       \* recordings started so far
          alive,      \* the daemon process is running
          cleaned     \* start-up clean-up has run since the last crash

fvars == <<dir, cur, phase, nrec, alive, cleaned>>

File(k, i, c) == [kind |-> k, id |-> i, content |-> c]
Has(k, i) == \E f \in dir : f.kind = k /\ f.id = i
Replace(k, i, c) == {f \in dir : ~(f.kind = k /\ f.id = i)} \cup {File(k, i, c)}
Remove(k, i) == {f \in dir : ~(f.kind = k /\ f.id = i)}

Init == dir = {} /\ cur = 0 /\ phase = "idle" /\ nrec = 0 /\ alive = TRUE /\ cleaned = TRUE

CreateTemp == /\ alive /\ cleaned /\ cur = 0 /\ nrec < MaxRec
              /\ nrec' = nrec + 1 /\ cur' = nrec + 1 /\ phase' = "temp"
              /\ dir' = dir \cup {File("temp", nrec + 1, "empty")}
              /\ UNCHANGED <<alive, cleaned>>
CreateScratch == /\ alive /\ phase = "temp" /\ phase' = "open"
                 /\ dir' = dir \cup {File("scratch", cur, "partial")}
                 /\ UNCHANGED <<cur, nrec, alive, cleaned>>
WriteFrame == alive /\ phase = "open" /\ UNCHANGED fvars          \* buffered / scratch only: no visible change
\* writer.Close()
Compress1 == /\ alive /\ phase \in {"open"} /\ phase' = "compressing"
             /\ dir' = Replace("temp", cur, "partial")
             /\ UNCHANGED <<cur, nrec, alive, cleaned>>
Compress2 == /\ alive /\ phase = "compressing" /\ phase' = "compressed"
             /\ dir' = Replace("temp", cur, "complete")
             /\ UNCHANGED <<cur, nrec, alive, cleaned>>
DeleteScratch == /\ alive /\ phase = "compressed" /\ phase' = "closed"
                 /\ dir' = Remove("scratch", cur)
                 /\ UNCHANGED <<cur, nrec, alive, cleaned>>
\* StopRecording: rename;  Stop(): remove
Rename == /\ alive /\ (phase = "closed" \/ (RenameEarly /\ phase \in {"open", "compressing", "compressed"}))
          /\ LET c == (CHOOSE f \in dir : f.kind = "temp" /\ f.id = cur).content
             IN dir' = Remove("temp", cur) \cup {File("final", cur, c)}
          /\ cur' = 0 /\ phase' = "idle"
          /\ UNCHANGED <<nrec, alive, cleaned>>
Discard == /\ alive /\ phase = "closed"
           /\ dir' = Remove("temp", cur) /\ cur' = 0 /\ phase' = "idle"
           /\ UNCHANGED <<nrec, alive, cleaned>>

Crash == /\ alive /\ alive' = FALSE /\ cleaned' = FALSE /\ cur' = 0 /\ phase' = "idle"
         /\ UNCHANGED <<dir, nrec>>
Restart == /\ ~alive /\ alive' = TRUE /\ UNCHANGED <<dir, cur, phase, nrec, cleaned>>
Cleanup == /\ alive /\ ~cleaned /\ cleaned' = TRUE
           /\ dir' = {f \in dir : f.kind \notin CleanKinds}
           /\ UNCHANGED <<cur, phase, nrec, alive>>

Next == CreateTemp \/ CreateScratch \/ WriteFrame \/ Compress1 \/ Compress2 \/ DeleteScratch
        \/ Rename \/ Discard \/ Crash \/ Restart \/ Cleanup

(* C10 *)
FinalsComplete == \A f \in dir : f.kind = "final" => f.content = "complete"      \* what any observer can see
NoDebrisAfterCleanup == (alive /\ cleaned /\ cur = 0) => \A f \in dir : f.kind = "final"
OnlyOneInProgress == Cardinality({f \in dir : f.kind = "temp" /\ alive /\ cleaned}) <= 1
=============================================================================
