------------------------------ MODULE RingConc ------------------------------
(***************************************************************************)
(* The frame ring under concurrent use (C19, "recent is the frame before   *)
(* the current one", when CopyRecent is called from another goroutine      *)
(* than the one that fills the ring).                                      *)
(*                                                                         *)
(* motion/frameloop.go protects its indices with a mutex of its own.  The  *)
(* producer (the frame loop) fills the slot Current() returned WITHOUT the *)
(* lock - pixel by pixel, modelled as two halves - and then calls Move()   *)
(* under the lock.  CopyRecent takes the lock, computes the index of the   *)
(* previous slot and copies that slot.  Whether the copy happens before    *)
(* the lock is released is exactly what the constant LockedCopy says:      *)
(*   TRUE   the pinned code (the copy is made under the lock)              *)
(*   FALSE  the lock covers the index computation only (self-test: TLC     *)
(*          must find a torn copy)                                         *)
(* Each slot is a pair of halves <<a, b>> holding the tag of the frame     *)
(* that was written into it; a whole frame has a = b.                      *)
(***************************************************************************)
EXTENDS Integers, Sequences, FiniteSets, TLC

CONSTANTS Cap,          \* ring capacity (>= 2: with one slot 'recent' is the slot being filled)
          MaxTag,       \* frames produced
          Calls,        \* CopyRecent calls made
          LockedCopy    \* see above

VARIABLES slotA, slotB,   \* halves of every slot
          cur,            \* currentIndex
          tag,            \* tag of the frame the producer is working on
          lock,           \* "free" | "prod" | "cons"
          ppc,            \* producer: "fillA" | "fillB" | "lock" | "move" | "done"
          cpc,            \* consumer: "idle" | "lock" | "index" | "copyA" | "copyB" | "unlock" | "done"
          idx, cpA, cpB,  \* consumer: slot chosen, halves copied
          ncalls,
          lo, hi          \* tags of 'the frame before the current one' when the call began / when it is judged

vars == <<slotA, slotB, cur, tag, lock, ppc, cpc, idx, cpA, cpB, ncalls, lo, hi>>
Slots == 0..(Cap - 1)
Prev(i) == (i + Cap - 1) % Cap
RecentTag == slotA[Prev(cur)]          \* only read where the previous slot is whole (the producer never fills it)

Init == /\ slotA = [i \in Slots |-> IF i = 0 THEN 1 ELSE 0] /\ slotB = [i \in Slots |-> IF i = 0 THEN 1 ELSE 0]
        /\ cur = 1 % Cap /\ tag = 2            \* frame 1 is complete and 'recent'; the producer works on frame 2
        /\ lock = "free" /\ ppc = "fillA" /\ cpc = "idle"
        /\ idx = 0 /\ cpA = 0 /\ cpB = 0 /\ ncalls = 0 /\ lo = 0 /\ hi = 0

(* ---- producer: fill Current() (no lock), then Move() (lock) ---- *)
PFillA == /\ ppc = "fillA" /\ tag <= MaxTag
          /\ slotA' = [slotA EXCEPT ![cur] = tag] /\ ppc' = "fillB"
          /\ UNCHANGED <<slotB, cur, tag, lock, cpc, idx, cpA, cpB, ncalls, lo, hi>>
PFillB == /\ ppc = "fillB"
          /\ slotB' = [slotB EXCEPT ![cur] = tag] /\ ppc' = "lock"
          /\ UNCHANGED <<slotA, cur, tag, lock, cpc, idx, cpA, cpB, ncalls, lo, hi>>
PLock  == /\ ppc = "lock" /\ lock = "free" /\ lock' = "prod" /\ ppc' = "move"
          /\ UNCHANGED <<slotA, slotB, cur, tag, cpc, idx, cpA, cpB, ncalls, lo, hi>>
PMove  == /\ ppc = "move" /\ cur' = (cur + 1) % Cap /\ lock' = "free" /\ tag' = tag + 1
          /\ ppc' = (IF tag + 1 > MaxTag THEN "done" ELSE "fillA")
          /\ UNCHANGED <<slotA, slotB, cpc, idx, cpA, cpB, ncalls, lo, hi>>

(* ---- consumer: CopyRecent ---- *)
CStart == /\ cpc = "idle" /\ ncalls < Calls /\ cpc' = "lock"
          /\ lo' = tag - 1                     \* frames moved past so far: the 'recent' frame is this one or a later one
          /\ UNCHANGED <<slotA, slotB, cur, tag, lock, ppc, idx, cpA, cpB, ncalls, hi>>
CLock  == /\ cpc = "lock" /\ lock = "free" /\ lock' = "cons" /\ cpc' = "index"
          /\ UNCHANGED <<slotA, slotB, cur, tag, ppc, idx, cpA, cpB, ncalls, lo, hi>>
CIndex == /\ cpc = "index" /\ idx' = Prev(cur)
          /\ (IF LockedCopy THEN cpc' = "copyA" /\ UNCHANGED lock
              ELSE cpc' = "copyA" /\ lock' = "free")          \* the lock covers the index only
          /\ UNCHANGED <<slotA, slotB, cur, tag, ppc, cpA, cpB, ncalls, lo, hi>>
CCopyA == /\ cpc = "copyA" /\ cpA' = slotA[idx] /\ cpc' = "copyB"
          /\ UNCHANGED <<slotA, slotB, cur, tag, lock, ppc, idx, cpB, ncalls, lo, hi>>
CCopyB == /\ cpc = "copyB" /\ cpB' = slotB[idx] /\ cpc' = "unlock"
          /\ UNCHANGED <<slotA, slotB, cur, tag, lock, ppc, idx, cpA, ncalls, lo, hi>>
CDone  == /\ cpc = "unlock" /\ cpc' = "idle" /\ ncalls' = ncalls + 1
          /\ lock' = (IF LockedCopy THEN "free" ELSE lock)
          /\ hi' = tag - 1
          /\ UNCHANGED <<slotA, slotB, cur, tag, ppc, idx, cpA, cpB, lo>>

Next == PFillA \/ PFillB \/ PLock \/ PMove \/ CStart \/ CLock \/ CIndex \/ CCopyA \/ CCopyB \/ CDone
Spec == Init /\ [][Next]_vars /\ WF_vars(Next)

TypeOK == /\ cur \in Slots /\ idx \in Slots /\ lock \in {"free", "prod", "cons"}
          /\ tag \in 2..(MaxTag + 1) /\ ncalls \in 0..Calls

(* a finished copy is one whole frame ... *)
WholeFrame == cpc = "unlock" => cpA = cpB
(* ... and it is the frame that was 'the one before the current' at some moment of the call *)
RecentAtSomeMoment == cpc = "unlock" /\ cpA = cpB => lo <= cpA /\ cpA <= tag - 1
(* the lock is never held by both, and the producer never fills the slot the consumer was told to copy while the
   consumer holds the lock *)
Mutex == ~(ppc = "move" /\ cpc \in {"index"}) /\ (LockedCopy /\ cpc \in {"copyA", "copyB", "unlock"} => lock = "cons")
(* every call returns and the producer finishes (no deadlock between the two) *)
Terminates == <>(ppc = "done" /\ ncalls = Calls)
=============================================================================
