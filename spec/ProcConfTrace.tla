--------------------------- MODULE ProcConfTrace ---------------------------
(***************************************************************************)
(* Conformance: every trace recorded from the real MotionProcessor must be *)
(* a behaviour of Processor.tla.  The environment of each step is read     *)
(* from the log (observed motion bit, window answer implied by the clock,  *)
(* disk flag, result of every sink call) and the calls the specification   *)
(* emits must equal the calls that were observed, call for call.           *)
(***************************************************************************)
EXTENDS Processor, ProcMon, Json, TLC

VARIABLES l, winS, winE

Trace == ndJsonDeserialize("trace.ndjson")
T == Trace[l]

TInit == /\ l = 1 /\ winS = 0 /\ winE = 0
         /\ N = 1 /\ TrigF = 0 /\ MinF = 0 /\ MaxF = 0 /\ ConstOn = FALSE
         /\ InitState

IsEv(e) == l <= Len(Trace) /\ T.ev = e /\ l' = l + 1

TCfg == /\ IsEv("cfg")
        /\ N' = T.N /\ TrigF' = T.TrigF /\ MinF' = T.MinF /\ MaxF' = T.MaxF /\ ConstOn' = T.ConstOn
        /\ winS' = T.winS /\ winE' = T.winE
        /\ fid' = 0 /\ ring' = [i \in 0..(MaxN - 1) |-> 0] /\ cur' = 0 /\ full' = FALSE /\ oldest' = 0
        /\ rec' = FALSE /\ written' = 0 /\ until' = 0 /\ trig' = 0
        /\ cr' = 0 /\ snapReq' = FALSE /\ snapRec' = FALSE /\ snapN' = 0 /\ out' = <<>>

(* result of the first call (s, op) in the logged calls; TRUE when absent *)
OkOf(cs, s, op) == LET f == SelCalls(cs, s, op) IN IF f = <<>> THEN TRUE ELSE f[1].ok
(* index of the failing pre-trigger write among the motion writes (0 = none) *)
PreFail(cs, id) == LET w == SelCalls(cs, "m", "w")
                       bad == {i \in DOMAIN w : ~w[i].ok /\ w[i].id < id}
                   IN IF bad = {} THEN 0 ELSE CHOOSE i \in bad : \A j \in bad : i <= j
CurOk(cs, s, id) == LET w == SelectSeq(cs, LAMBDA c : c.s = s /\ c.op = "w" /\ c.id = id)
                    IN IF w = <<>> THEN TRUE ELSE w[1].ok

TFrame == /\ IsEv("frame")
          /\ LET w3 == WinOf([winS |-> winS, winE |-> winE], T.now)
             IN \E wi \in (IF w3 = "in" THEN {TRUE} ELSE IF w3 = "out" THEN {FALSE} ELSE BOOLEAN) :
                Frame([motion |-> T.motion, win |-> wi, disk |-> T.disk,
                       mStart |-> OkOf(T.calls, "m", "start"), mPre |-> PreFail(T.calls, T.id),
                       mW |-> CurOk(T.calls, "m", T.id), mStop |-> OkOf(T.calls, "m", "stop"),
                       cStart |-> OkOf(T.calls, "c", "start"), cW |-> CurOk(T.calls, "c", T.id),
                       cStop |-> OkOf(T.calls, "c", "stop"),
                       sStart |-> OkOf(T.calls, "s", "start"), sW |-> CurOk(T.calls, "s", T.id),
                       sStop |-> OkOf(T.calls, "s", "stop")])
          /\ out' = T.calls
          /\ fid' = T.id
          /\ UNCHANGED <<winS, winE>>
TBad   == IsEv("bad") /\ T.isbad /\ BadFrame(OkOf(T.calls, "m", "stop"), OkOf(T.calls, "c", "stop"))
          /\ out' = T.calls /\ UNCHANGED <<winS, winE>>
TReset == IsEv("reset") /\ Reset(OkOf(T.calls, "m", "stop")) /\ out' = T.calls /\ UNCHANGED <<winS, winE>>
TSnap  == IsEv("snapreq") /\ SnapRequest /\ UNCHANGED <<winS, winE>>

TNext == TCfg \/ TFrame \/ TBad \/ TReset \/ TSnap

(* high-water mark of consumed lines, printed for the driver *)
Progress == TLCGet("stats").diameter - 1
Accepted == IF Progress = Len(Trace) THEN TRUE ELSE PrintT(<<"REJECTED-AT", Progress + 1>>)
=============================================================================
