------------------------------ MODULE ThrCheck ------------------------------
(* Design check: every behaviour of Throttle.tla satisfies the observer of ThrMon.tla. *)
EXTENDS Throttle, ThrMon
VARIABLE mon
CInit == Init /\ mon = ThrMonInit([Cap |-> Cap, MinLen |-> MinLen, K |-> K])
CNext == Next /\ mon' = ThrMonStep(mon, ev')
NoViolation == mon.v = {}
MonAgrees == /\ mon.baseOpen = recording /\ mon.upOpen = upOpen
             /\ mon.af <= avail + behind /\ avail <= mon.aq + mon.stale   \* lo <= (true budget) <= hi, up to pending ticks
CView == <<Cap, MinLen, K, quirk, phase, behind, avail, recording, upOpen, mon>>
=============================================================================
