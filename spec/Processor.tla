---------------------------- MODULE Processor ----------------------------
(***************************************************************************)
(* Code-shaped specification of motion/motionprocessor.go (MotionProcessor)*)
(* together with the pre-trigger ring of motion/frameloop.go.              *)
(*                                                                         *)
(* One action per call into the component:                                 *)
(*   Frame(e)     = Process(raw) of a valid frame  (parse, process(),      *)
(*                  processConstantRecorder(), processSnapshot())          *)
(*   BadFrame     = Process(raw) whose parse fails                         *)
(*   Reset        = MotionProcessor.Reset ('clear' on the socket)          *)
(*   SnapRequest  = StartSnapshot = true (D-Bus TakeTestRecording)         *)
(* The environment record e carries everything process() reads from the    *)
(* outside in that call: the detector's verdict, the window and disk       *)
(* gates, and the result of every sink call.  `out` is the sequence of     *)
(* sink calls the step issues (output only).                               *)
(*                                                                         *)
(* Legacy = TRUE models three defects of the pinned commit that were        *)
(* repaired by "fix:" commits (continuous-recorder counter kept across a   *)
(* bad frame / a failing stop; test recording started while one is open).  *)
(***************************************************************************)
EXTENDS Integers, Sequences, FiniteSets

CONSTANTS MaxN, MaxTrig, MaxMin, MaxMax,   \* bounds on the configuration chosen in Init
          MaxFid,                          \* bound on the number of accepted frames
          SnapLen,                         \* 20 in the code: a test recording has SnapLen+1 frames
          Legacy

VARIABLES N, TrigF, MinF, MaxF, ConstOn,   \* configuration (fixed in Init)
          fid, ring, cur, full, oldest,    \* FrameLoop: ids held, currentIndex, bufferFull, oldest
          rec, written, until, trig,       \* isRecording, framesWritten, writeUntil, triggered
          cr,                              \* crFrames
          snapReq, snapRec, snapN,         \* StartSnapshot, SnapshotRecording, snapshotFrames
          out                              \* calls issued by the last step

cfgv  == <<N, TrigF, MinF, MaxF, ConstOn>>
ringv == <<fid, ring, cur, full, oldest>>
pvars == <<N, TrigF, MinF, MaxF, ConstOn, fid, ring, cur, full, oldest,
           rec, written, until, trig, cr, snapReq, snapRec, snapN, out>>

NoOldest == -1
Min(a, b) == IF a < b THEN a ELSE b
Call(s, op, id, ok) == [s |-> s, op |-> op, id |-> id, ok |-> ok]

(* ---- FrameLoop.GetHistory / getFullHistory, literally ---- *)
FullHist(r) == IF cur = N - 1 THEN [i \in 1..N |-> r[i - 1]]
               ELSE IF ~full THEN [i \in 1..(cur + 1) |-> r[i - 1]]
               ELSE [i \in 1..N |-> r[(cur + i) % N]]
History(r) == LET fh == FullHist(r)
              IN IF oldest = NoOldest THEN fh
                 ELSE LET hl == ((cur - oldest + N) % N) + 1
                      IN SubSeq(fh, Len(fh) - hl + 1, Len(fh))
MoveCur == (cur + 1) % N

(* ---- environment of one valid frame: a record with the fields
   motion, win, disk            detector verdict, window.Active(), CheckCanRecord() = nil
   mStart, mPre, mW, mStop      motion sink: start ok, index of the failing pre-trigger write (0 = none),
                                current-frame write ok, stop ok
   cStart, cW, cStop            continuous sink;   sStart, sW, sStop   test sink              ---- *)
InitCfg == /\ N \in 1..MaxN /\ TrigF \in 0..MaxTrig
           /\ MinF \in 0..MaxMin /\ MaxF \in 0..MaxMax /\ MinF <= MaxF
           /\ ConstOn \in BOOLEAN
InitState == /\ fid = 0 /\ ring = [i \in 0..(MaxN - 1) |-> 0] /\ cur = 0 /\ full = FALSE /\ oldest = 0
             /\ rec = FALSE /\ written = 0 /\ until = 0 /\ trig = 0
             /\ cr = 0 /\ snapReq = FALSE /\ snapRec = FALSE /\ snapN = 0
             /\ out = <<>>
Init == InitCfg /\ InitState

(* ---- process(): the motion recording state machine ---- *)
Motion(e, id, r) ==
  LET t1        == IF e.motion THEN trig + 1 ELSE 0
      tryStart  == e.motion /\ ~rec /\ t1 >= TrigF
      wantStart == tryStart /\ e.win /\ e.disk            \* canStartWriting() passed
      started   == wantStart /\ e.mStart                  \* StartRecording returned nil
      hist      == History(r)
      npre      == Len(hist) - 1
      failAt    == IF started /\ e.mPre > 0 /\ e.mPre <= npre THEN e.mPre ELSE 0
      pre       == IF ~started THEN <<>>
                   ELSE IF failAt = 0 THEN [i \in 1..npre |-> Call("m", "w", hist[i], TRUE)]
                   ELSE [i \in 1..failAt |-> Call("m", "w", hist[i], i < failAt)]
      rec1      == rec \/ started
      until1    == IF e.motion /\ rec THEN Min(written + MinF, MaxF)
                   ELSE IF started /\ failAt = 0 THEN MinF
                   ELSE until
      written1  == IF rec1 THEN written + 1 ELSE written
      stop      == rec1 /\ written1 >= until1
      calls     == (IF wantStart THEN <<Call("m", "start", 0, e.mStart)>> ELSE <<>>)
                   \o pre
                   \o (IF rec1 THEN <<Call("m", "w", id, e.mW)>> ELSE <<>>)
                   \o (IF stop THEN <<Call("m", "stop", 0, e.mStop)>> ELSE <<>>)
  IN [calls |-> calls, rec |-> rec1 /\ ~stop,
      written |-> IF stop THEN 0 ELSE written1,
      until |-> IF stop THEN 0 ELSE until1,
      trig |-> IF stop THEN 0 ELSE t1,
      mark |-> stop, tryStart |-> tryStart, wantStart |-> wantStart, npre |-> npre]

(* ---- processConstantRecorder() ---- *)
Const(e, id) ==
  IF ~ConstOn THEN [calls |-> <<>>, cr |-> cr]
  ELSE IF cr = 0 /\ ~e.cStart THEN [calls |-> <<Call("c", "start", 0, FALSE)>>, cr |-> 0]
  ELSE LET c1   == cr + 1
           stop == c1 > MaxF
       IN [calls |-> (IF cr = 0 THEN <<Call("c", "start", 0, TRUE)>> ELSE <<>>)
                     \o <<Call("c", "w", id, e.cW)>>
                     \o (IF stop THEN <<Call("c", "stop", 0, e.cStop)>> ELSE <<>>),
           cr |-> IF stop /\ (e.cStop \/ ~Legacy) THEN 0 ELSE c1]

(* ---- processSnapshot() ---- *)
Snap(e, id) ==
  LET startNow == snapReq /\ (Legacy \/ ~snapRec)
      failed   == startNow /\ ~e.sStart
      rec1     == snapRec \/ startNow
  IN IF failed THEN [calls |-> <<Call("s", "start", 0, FALSE)>>, rec |-> snapRec, n |-> snapN]
     ELSE IF ~rec1 THEN [calls |-> <<>>, rec |-> FALSE, n |-> snapN]
     ELSE LET n1   == snapN + 1
              stop == n1 > SnapLen
          IN [calls |-> (IF startNow THEN <<Call("s", "start", 0, TRUE)>> ELSE <<>>)
                        \o <<Call("s", "w", id, e.sW)>>
                        \o (IF stop THEN <<Call("s", "stop", 0, e.sStop)>> ELSE <<>>),
              rec |-> ~stop,
              n |-> IF stop /\ e.sStop THEN 0 ELSE n1]

(* Only the environment fields that the step actually reads may vary; the    *)
(* others are pinned, so exhaustive runs do not enumerate don't-cares.  F = 0 *)
(* allows refusals only (window, disk, file creation); F = 1 adds every sink  *)
(* failure that can change the state (pre-trigger write, continuous start /   *)
(* stop, test start / stop).  Failures of the current-frame write and of the  *)
(* motion stop are ignored by the code (logged only) and are pinned to ok.    *)
FrameAny(F, A(_)) ==
  \E mo \in BOOLEAN :
    LET t1  == IF mo THEN trig + 1 ELSE 0
        try == mo /\ ~rec /\ t1 >= TrigF
        r1  == [ring EXCEPT ![cur] = fid + 1]
        sSt == snapReq /\ (Legacy \/ ~snapRec)
    IN \E wi \in (IF try THEN BOOLEAN ELSE {TRUE}) :
       \E di \in (IF try /\ wi THEN BOOLEAN ELSE {TRUE}) :
       \E ms \in (IF try /\ wi /\ di THEN BOOLEAN ELSE {TRUE}) :
       \E mp \in (IF F > 0 /\ try /\ wi /\ di /\ ms /\ Len(History(r1)) >= 2 THEN 0..1 ELSE {0}) :
       \E cs \in (IF F > 0 /\ ConstOn /\ cr = 0 THEN BOOLEAN ELSE {TRUE}) :
       \E ct \in (IF F > 0 /\ ConstOn /\ (cr # 0 \/ cs) /\ cr + 1 > MaxF THEN BOOLEAN ELSE {TRUE}) :
       \E ss \in (IF F > 0 /\ sSt THEN BOOLEAN ELSE {TRUE}) :
       \E st \in (IF F > 0 /\ (snapRec \/ sSt) /\ (~sSt \/ ss) /\ snapN + 1 > SnapLen THEN BOOLEAN ELSE {TRUE}) :
       \E e \in {[motion |-> mo, win |-> wi, disk |-> di, mStart |-> ms, mPre |-> mp, mW |-> TRUE, mStop |-> TRUE,
                 cStart |-> cs, cW |-> TRUE, cStop |-> ct, sStart |-> ss, sW |-> TRUE, sStop |-> st]} :
         A(e)      \* (bound through a singleton set so that TLC evaluates the record once)

Frame(e) ==
  /\ fid < MaxFid
  /\ LET id == fid + 1
         r1 == [ring EXCEPT ![cur] = id]       \* parseFrame writes the current slot
         c1 == MoveCur
     IN \E pm \in {Motion(e, id, r1)} : \E pc \in {Const(e, id)} : \E ps \in {Snap(e, id)} :
        /\ fid' = id /\ ring' = r1 /\ cur' = c1
        /\ full' = (full \/ c1 = 0)
        /\ oldest' = IF pm.mark THEN c1 ELSE IF c1 = oldest THEN NoOldest ELSE oldest
        /\ rec' = pm.rec /\ written' = pm.written /\ until' = pm.until /\ trig' = pm.trig
        /\ cr' = pc.cr
        /\ snapReq' = FALSE /\ snapRec' = ps.rec /\ snapN' = ps.n
        /\ out' = pm.calls \o pc.calls \o ps.calls
  /\ UNCHANGED cfgv

(* stopRecording() called outside process(): the mark goes on the current slot *)
StopOutside(ok) ==
  /\ out' = (IF rec THEN <<Call("m", "stop", 0, ok)>> ELSE <<>>)
  /\ oldest' = IF rec THEN cur ELSE oldest
  /\ rec' = FALSE
  /\ written' = (IF rec THEN 0 ELSE written)
  /\ until' = (IF rec THEN 0 ELSE until)
  /\ trig' = (IF rec THEN 0 ELSE trig)

BadFrame(mOk, cOk) ==
  /\ out' = (IF rec THEN <<Call("m", "stop", 0, mOk)>> ELSE <<>>)
            \o (IF ConstOn THEN <<Call("c", "stop", 0, cOk)>> ELSE <<>>)
  /\ oldest' = IF rec THEN cur ELSE oldest
  /\ rec' = FALSE
  /\ written' = (IF rec THEN 0 ELSE written)
  /\ until' = (IF rec THEN 0 ELSE until)
  /\ trig' = (IF rec THEN 0 ELSE trig)
  /\ cr' = IF Legacy THEN cr ELSE 0
  /\ UNCHANGED <<cfgv, fid, ring, cur, full, snapReq, snapRec, snapN>>

Reset(mOk) ==
  /\ StopOutside(mOk)
  /\ UNCHANGED <<cfgv, fid, ring, cur, full, cr, snapReq, snapRec, snapN>>

SnapRequest ==
  /\ snapReq' = TRUE /\ out' = <<>>
  /\ UNCHANGED <<cfgv, fid, ring, cur, full, oldest, rec, written, until, trig, cr, snapRec, snapN>>

NextRefusals == \/ FrameAny(0, Frame)
                \/ BadFrame(TRUE, TRUE) \/ Reset(TRUE) \/ SnapRequest
NextFaults   == \/ FrameAny(1, Frame)
                \/ \E a, b \in BOOLEAN : BadFrame(a, b)
                \/ \E a \in BOOLEAN : Reset(a)
                \/ SnapRequest

(* ---- type / structural invariants of the design ---- *)
TypeOK == /\ cur \in 0..(N - 1) /\ oldest \in -1..(N - 1)
          /\ written >= 0 /\ until >= 0 /\ trig >= 0 /\ cr >= 0 /\ snapN >= 0
          /\ (~rec => written = 0 /\ until = 0)
          /\ (rec => written < until)
          /\ until <= MaxF
=============================================================================
