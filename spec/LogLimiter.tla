----------------------------- MODULE LogLimiter -----------------------------
(***************************************************************************)
(* loglimiter/loglimiter.go.  Code-shaped: previousEntry / previousTime,   *)
(* the zero time.Time of a fresh limiter makes the first message pass.     *)
(* Declarative (C20): a message is suppressed iff it equals the last       *)
(* message actually printed and arrives less than Interval after that      *)
(* print; printed messages are emitted unmodified.                         *)
(***************************************************************************)
EXTENDS Integers, Sequences

CONSTANTS Interval, Msgs, MaxTime, Steps

VARIABLES prevEntry, prevTime, fresh,     \* code-shaped (fresh: previousTime is still the zero time)
          now, lastMsg, lastTime, has,    \* declarative: last message actually printed
          printed, outMsg,                \* result of the last call
          gapOK                           \* history: consecutive prints of one message were >= Interval apart

lvars == <<prevEntry, prevTime, fresh, now, lastMsg, lastTime, has, printed, outMsg, gapOK>>

Init == /\ prevEntry = "" /\ prevTime = 0 /\ fresh = TRUE
        /\ now = 0 /\ lastMsg = "" /\ lastTime = 0 /\ has = FALSE
        /\ printed = FALSE /\ outMsg = "" /\ gapOK = TRUE

CodePrints(m, t)  == ~((fresh = FALSE /\ t - prevTime < Interval) /\ m = prevEntry)
DeclPrints(m, t)  == ~(has /\ m = lastMsg /\ t - lastTime < Interval)

Print(m, dt) ==
  /\ now + dt <= MaxTime
  /\ LET t == now + dt
         p == CodePrints(m, t)
     IN /\ now' = t
        /\ printed' = p /\ outMsg' = (IF p THEN m ELSE "")
        /\ prevEntry' = (IF p THEN m ELSE prevEntry)
        /\ prevTime' = (IF p THEN t ELSE prevTime)
        /\ fresh' = (fresh /\ ~p)
        /\ gapOK' = (gapOK /\ (p /\ has /\ m = lastMsg => t - lastTime >= Interval))
        /\ lastMsg' = (IF p THEN m ELSE lastMsg) /\ lastTime' = (IF p THEN t ELSE lastTime)
        /\ has' = (has \/ p)

Next == \E m \in Msgs, dt \in Steps : Print(m, dt)

(* C20 on the design *)
Iff        == TRUE   \* (stated as the action property below)
IffStep    == [][\A m \in Msgs, dt \in Steps : Print(m, dt) => (printed' = DeclPrints(m, now + dt))]_lvars
Unmodified == printed => outMsg = lastMsg
AtMostOnePerInterval == gapOK
StateAgrees == (has <=> ~fresh) /\ (has => prevEntry = lastMsg /\ prevTime = lastTime)
=============================================================================
