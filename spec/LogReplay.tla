------------------------------ MODULE LogReplay ------------------------------
EXTENDS LogLimiter, Json
VARIABLE ev
RInit == Init /\ ev = "init"
RNext == \E m \in Msgs, dt \in Steps : Print(m, dt) /\ ev' = ToJson([msg |-> m, dt |-> dt])
=============================================================================
