------------------------------ MODULE Snapshot ------------------------------
(***************************************************************************)
(* Snapshots / test-recording requests served concurrently with the frame  *)
(* loop: cmd/thermal-recorder/snapshot.go + service.go (requesters, one    *)
(* goroutine per D-Bus call), main.go handleConn (frame loop, reconnect),  *)
(* motion.MotionProcessor.Process / GetRecentFrame, FrameLoop.mu.          *)
(* One action per shared-memory access or lock operation:                  *)
(*   loop:  [AcqS] Parse1 Parse2 (parseFrame writes the current slot, two  *)
(*          halves) IncCur (CurrentFrame++) LockF MoveF UnlockF (FrameLoop *)
(*          .Move under its mutex) ReadFlag (StartSnapshot) [RelS]         *)
(*          Reconnect: a new MotionProcessor is assigned to the global     *)
(*   snapshot requester: AcqS ReadPtr ReadCur LockF Copy1 Copy2 UnlockF    *)
(*          RelS;   test-recording requester: AcqS ReadPtr SetFlag RelS    *)
(* Synced = FALSE is the pinned commit: the frame loop takes no lock for   *)
(* the processor pointer, CurrentFrame, StartSnapshot and the slot being   *)
(* parsed.  Synced = TRUE is the repaired code: the frame loop holds the   *)
(* snapshot mutex while it processes a frame or replaces the processor.    *)
(***************************************************************************)
EXTENDS Integers, Sequences, FiniteSets

CONSTANTS N,            \* ring capacity (preview-secs*fps + trigger-frames)
          F,            \* frames
          Synced, Reqs, TReqs

VARIABLES slotA, slotB, cur, completed,     \* ring halves, currentIndex, frames whose processing is complete
          fmu, smu,                         \* FrameLoop.mu, snapshot.go mu (0 = free, else owner)
          curFrame, flag, gen,              \* CurrentFrame, StartSnapshot, generation of the processor pointer
          lpc, f,                           \* frame loop
          rpc, atReq, idx, a, b, seenGen,   \* requesters
          results, started                  \* returned <<a, b, completed at request>>; test recordings started

svars == <<slotA, slotB, cur, completed, fmu, smu, curFrame, flag, gen, lpc, f, rpc, atReq, idx, a, b, seenGen, results, started>>

Loop == 1
Procs == {Loop} \cup Reqs \cup TReqs

Init == /\ slotA = [i \in 0..(N - 1) |-> 0] /\ slotB = [i \in 0..(N - 1) |-> 0] /\ cur = 0 /\ completed = 0
        /\ fmu = 0 /\ smu = 0 /\ curFrame = 0 /\ flag = FALSE /\ gen = 1
        /\ lpc = "idle" /\ f = 1
        /\ rpc = [p \in Reqs \cup TReqs |-> "start"] /\ atReq = [p \in Reqs |-> 0] /\ idx = [p \in Reqs |-> 0]
        /\ a = [p \in Reqs |-> 0] /\ b = [p \in Reqs |-> 0] /\ seenGen = [p \in Reqs \cup TReqs |-> 0]
        /\ results = {} /\ started = 0

LU == <<slotA, slotB, cur, completed, fmu, smu, curFrame, flag, gen, lpc, f>>   \* loop-side variables
RU == <<rpc, atReq, idx, a, b, seenGen, results>>

(* ---------------- frame loop ---------------- *)
LStep(from, to) == lpc = from /\ lpc' = to
LAcq == /\ LStep("idle", IF Synced THEN "acq" ELSE "p1") /\ f <= F
        /\ UNCHANGED <<slotA, slotB, cur, completed, fmu, smu, curFrame, flag, gen, f, started>> /\ UNCHANGED RU
LAcq2 == /\ LStep("acq", "p1") /\ smu = 0 /\ smu' = Loop
         /\ UNCHANGED <<slotA, slotB, cur, completed, fmu, curFrame, flag, gen, f, started>> /\ UNCHANGED RU
LParse1 == /\ LStep("p1", "p2") /\ slotA' = [slotA EXCEPT ![cur] = f]
           /\ UNCHANGED <<slotB, cur, completed, fmu, smu, curFrame, flag, gen, f, started>> /\ UNCHANGED RU
LParse2 == /\ LStep("p2", "inc") /\ slotB' = [slotB EXCEPT ![cur] = f]
           /\ UNCHANGED <<slotA, cur, completed, fmu, smu, curFrame, flag, gen, f, started>> /\ UNCHANGED RU
LInc == /\ LStep("inc", "lockf") /\ curFrame' = curFrame + 1
        /\ UNCHANGED <<slotA, slotB, cur, completed, fmu, smu, flag, gen, f, started>> /\ UNCHANGED RU
LLockF == /\ LStep("lockf", "move") /\ fmu = 0 /\ fmu' = Loop
          /\ UNCHANGED <<slotA, slotB, cur, completed, smu, curFrame, flag, gen, f, started>> /\ UNCHANGED RU
LMove == /\ LStep("move", "unlockf") /\ cur' = (cur + 1) % N /\ completed' = f
         /\ UNCHANGED <<slotA, slotB, fmu, smu, curFrame, flag, gen, f, started>> /\ UNCHANGED RU
LUnlockF == /\ LStep("unlockf", "flag") /\ fmu' = 0
            /\ UNCHANGED <<slotA, slotB, cur, completed, smu, curFrame, flag, gen, f, started>> /\ UNCHANGED RU
LFlag == /\ LStep("flag", IF Synced THEN "rel" ELSE "idle")
         /\ flag' = FALSE /\ started' = (IF flag THEN started + 1 ELSE started)
         /\ f' = (IF Synced THEN f ELSE f + 1)
         /\ UNCHANGED <<slotA, slotB, cur, completed, fmu, smu, curFrame, gen>> /\ UNCHANGED RU
LRel == /\ LStep("rel", "idle") /\ smu' = 0 /\ f' = f + 1
        /\ UNCHANGED <<slotA, slotB, cur, completed, fmu, curFrame, flag, gen, started>> /\ UNCHANGED RU
(* camera reconnect: handleConn builds a new processor (fresh ring) and stores it in the global *)
LReconn == /\ lpc = "idle" /\ f <= F /\ gen < 2 /\ (Synced => smu = 0)
           /\ gen' = gen + 1 /\ slotA' = [i \in 0..(N - 1) |-> 0] /\ slotB' = [i \in 0..(N - 1) |-> 0]
           /\ cur' = 0 /\ curFrame' = 0 /\ completed' = 0       \* nothing has been processed on the new processor yet
           /\ UNCHANGED <<fmu, smu, flag, lpc, f, started>> /\ UNCHANGED RU

(* ---------------- snapshot requester p ---------------- *)
RStep(p, from, to) == rpc[p] = from /\ rpc' = [rpc EXCEPT ![p] = to]
RAcq(p) == /\ RStep(p, "start", "ptr") /\ smu = 0 /\ smu' = p /\ atReq' = [atReq EXCEPT ![p] = completed]
           /\ UNCHANGED <<slotA, slotB, cur, completed, fmu, curFrame, flag, gen, lpc, f, idx, a, b, seenGen, results, started>>
RPtr(p) == /\ RStep(p, "ptr", "cur") /\ seenGen' = [seenGen EXCEPT ![p] = gen]
           /\ UNCHANGED <<slotA, slotB, cur, completed, fmu, smu, curFrame, flag, gen, lpc, f, atReq, idx, a, b, results, started>>
RCur(p) == /\ RStep(p, "cur", "lockf")     \* reads processor.CurrentFrame
           /\ UNCHANGED <<slotA, slotB, cur, completed, fmu, smu, curFrame, flag, gen, lpc, f, atReq, idx, a, b, seenGen, results, started>>
RLockF(p) == /\ RStep(p, "lockf", "c1") /\ fmu = 0 /\ fmu' = p /\ idx' = [idx EXCEPT ![p] = (cur - 1 + N) % N]
             /\ UNCHANGED <<slotA, slotB, cur, completed, smu, curFrame, flag, gen, lpc, f, atReq, a, b, seenGen, results, started>>
RCopy1(p) == /\ RStep(p, "c1", "c2") /\ a' = [a EXCEPT ![p] = slotA[idx[p]]]
             /\ UNCHANGED <<slotA, slotB, cur, completed, fmu, smu, curFrame, flag, gen, lpc, f, atReq, idx, b, seenGen, results, started>>
RCopy2(p) == /\ RStep(p, "c2", "unlockf") /\ b' = [b EXCEPT ![p] = slotB[idx[p]]]
             /\ UNCHANGED <<slotA, slotB, cur, completed, fmu, smu, curFrame, flag, gen, lpc, f, atReq, idx, a, seenGen, results, started>>
RUnlockF(p) == /\ RStep(p, "unlockf", "rel") /\ fmu' = 0
               /\ UNCHANGED <<slotA, slotB, cur, completed, smu, curFrame, flag, gen, lpc, f, atReq, idx, a, b, seenGen, results, started>>
RRel(p) == /\ RStep(p, "rel", "done") /\ smu' = 0
           /\ results' = results \cup {<<a[p], b[p], atReq[p], seenGen[p], gen>>}
           /\ UNCHANGED <<slotA, slotB, cur, completed, fmu, curFrame, flag, gen, lpc, f, atReq, idx, a, b, seenGen, started>>
(* ---------------- test-recording requester ---------------- *)
TAcq(p) == /\ RStep(p, "start", "ptr") /\ smu = 0 /\ smu' = p
           /\ UNCHANGED <<slotA, slotB, cur, completed, fmu, curFrame, flag, gen, lpc, f, atReq, idx, a, b, seenGen, results, started>>
TPtr(p) == /\ RStep(p, "ptr", "set") /\ seenGen' = [seenGen EXCEPT ![p] = gen]
           /\ UNCHANGED <<slotA, slotB, cur, completed, fmu, smu, curFrame, flag, gen, lpc, f, atReq, idx, a, b, results, started>>
TSet(p) == /\ RStep(p, "set", "rel") /\ flag' = TRUE
           /\ UNCHANGED <<slotA, slotB, cur, completed, fmu, smu, curFrame, gen, lpc, f, atReq, idx, a, b, seenGen, results, started>>
TRel(p) == /\ RStep(p, "rel", "done") /\ smu' = 0
           /\ UNCHANGED <<slotA, slotB, cur, completed, fmu, curFrame, flag, gen, lpc, f, atReq, idx, a, b, seenGen, results, started>>

Next == \/ LAcq \/ LAcq2 \/ LParse1 \/ LParse2 \/ LInc \/ LLockF \/ LMove \/ LUnlockF \/ LFlag \/ LRel \/ LReconn
        \/ \E p \in Reqs : RAcq(p) \/ RPtr(p) \/ RCur(p) \/ RLockF(p) \/ RCopy1(p) \/ RCopy2(p) \/ RUnlockF(p) \/ RRel(p)
        \/ \E p \in TReqs : TAcq(p) \/ TPtr(p) \/ TSet(p) \/ TRel(p)
Spec == Init /\ [][Next]_svars /\ WF_svars(Next)

(* ---------------- lockset: the next access of each process ---------------- *)
Held(p) == (IF fmu = p THEN {"fmu"} ELSE {}) \cup (IF smu = p THEN {"smu"} ELSE {})
LoopAcc == CASE lpc = "p1" -> {[loc |-> <<"slotA", cur>>, w |-> TRUE]}
             [] lpc = "p2" -> {[loc |-> <<"slotB", cur>>, w |-> TRUE]}
             [] lpc = "inc" -> {[loc |-> <<"curFrame">>, w |-> TRUE]}
             [] lpc = "move" -> {[loc |-> <<"cur">>, w |-> TRUE]}
             [] lpc = "flag" -> {[loc |-> <<"flag">>, w |-> TRUE]}
             [] OTHER -> {}
ReqAcc(p) == CASE rpc[p] = "ptr" -> {[loc |-> <<"ptr">>, w |-> FALSE]}
               [] rpc[p] = "cur" /\ p \in Reqs -> {[loc |-> <<"curFrame">>, w |-> FALSE]}
               [] rpc[p] = "c1" /\ p \in Reqs -> {[loc |-> <<"slotA", idx[p]>>, w |-> FALSE]}
               [] rpc[p] = "c2" /\ p \in Reqs -> {[loc |-> <<"slotB", idx[p]>>, w |-> FALSE]}
               [] rpc[p] = "set" /\ p \in TReqs -> {[loc |-> <<"flag">>, w |-> TRUE]}
               [] OTHER -> {}
ReconnAcc == IF lpc = "idle" /\ f <= F /\ gen < 2 THEN {[loc |-> <<"ptr">>, w |-> TRUE]} ELSE {}
NoRace == \A p \in Reqs \cup TReqs :
            /\ \A x \in LoopAcc, y \in ReqAcc(p) : (x.loc = y.loc /\ (x.w \/ y.w)) => (Held(Loop) \cap Held(p) # {})
            /\ \A x \in ReconnAcc, y \in ReqAcc(p) : (x.loc = y.loc) => Synced
WholeFrame == \A r \in results : r[1] = r[2]
(* if a frame had completed on the processor when the request was made (and the camera did not reconnect during *)
(* the request) the copy is that frame or a newer one; before the first frame of a connection there is nothing    *)
(* to return and the property is read as silent                                                                *)
Fresh == \A r \in results : (r[4] = r[5] /\ r[3] >= 1) => r[1] >= r[3]
NoStall == <>(\A p \in Reqs \cup TReqs : rpc[p] = "done")
LoopCompletes == <>(f > F)
=============================================================================
