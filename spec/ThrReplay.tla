------------------------------ MODULE ThrReplay ------------------------------
EXTENDS Throttle, Json
VARIABLE sc
RInit == Init /\ sc = "init"
RNext == \E d \in Steps :
           \/ \E ok \in BOOLEAN : UpStart(d, ok) /\ sc' = ToJson([a |-> "start", d |-> d, ok |-> ok])
           \/ \E ok \in (IF recording THEN {TRUE} ELSE BOOLEAN) : UpWrite(d, ok) /\ sc' = ToJson([a |-> "w", d |-> d, ok |-> ok])
           \/ UpStop(d) /\ sc' = ToJson([a |-> "stop", d |-> d])
=============================================================================
