------------------------------ MODULE ThrReplay ------------------------------
EXTENDS Throttle, Json
VARIABLE sc
RInit == Init /\ sc = "init"
RNext == \E d \in Steps :
           \/ \E ok \in BOOLEAN : UpStart(d, ok) /\ sc' = ToJson([a |-> "start", d |-> d, ok |-> ok])
           \/ \E ok \in (IF recording THEN {TRUE} ELSE BOOLEAN), sok \in BOOLEAN :
                 UpWrite(d, ok, sok) /\ sc' = ToJson([a |-> "w", d |-> d, ok |-> ok, sok |-> sok])
           \/ \E sok \in (IF recording THEN BOOLEAN ELSE {TRUE}) : UpStop(d, sok) /\ sc' = ToJson([a |-> "stop", d |-> d, sok |-> sok])
=============================================================================
