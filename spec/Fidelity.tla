------------------------------ MODULE Fidelity ------------------------------
(***************************************************************************)
(* C11, first sentence: a finished recording decodes with the standard     *)
(* reader to exactly what was recorded.  The specification of fidelity is  *)
(* the identity; TLC is the evaluator of the relation between "expected"   *)
(* (what the harness handed to the recorder, in the property's terms) and  *)
(* "decoded" (what the go-cptv reader returns from the file), field by     *)
(* field, frame by frame, pixel by pixel.                                  *)
(* The model contribution for the second sentence (settings shape the      *)
(* files) is in SystemTrace.tla.                                           *)
(***************************************************************************)
EXTENDS Integers, Sequences, FiniteSets, Json, TLC

VARIABLE l
Trace == ndJsonDeserialize("trace.ndjson")

HeaderFields == {"device", "deviceid", "brand", "model", "serial", "firmware", "resx", "resy", "fps", "preview",
                 "lat", "long", "alt", "acc", "loctime"}

FileViol(x, d) ==
  {"C11:header-" \o f : f \in {g \in HeaderFields : x[g] # d[g]}}
  \cup {"C11:motion-config-" \o k : k \in {j \in DOMAIN x.motion : j \notin DOMAIN d.motion \/ d.motion[j] # x.motion[j]}}
  \cup (IF ~d.hasbg THEN {"C11:no-background-frame"} ELSE {})
  \cup (IF d.nframes # x.nframes \/ Len(d.frames) # Len(x.frames) THEN {"C11:frame-count"} ELSE {})
  \cup (IF Len(d.frames) >= 1 /\ ~d.frames[1].bg THEN {"C11:background-not-first"} ELSE {})
  \cup (IF \E i \in 1..Len(d.frames) : i <= Len(x.frames) /\ d.frames[i].bg # x.frames[i].bg THEN {"C11:background-flag"} ELSE {})
  \cup (IF \E i \in 1..Len(d.frames) : i <= Len(x.frames) /\ d.frames[i].pix # x.frames[i].pix THEN {"C11:pixels"} ELSE {})
  \cup (IF \E i \in 1..Len(d.frames) : i <= Len(x.frames) /\ ~x.frames[i].bg /\ ~d.frames[i].bg /\
              (d.frames[i].timeon # x.frames[i].timeon \/ d.frames[i].lastffc # x.frames[i].lastffc
               \/ d.frames[i].tempc # x.frames[i].tempc \/ d.frames[i].lastffctempc # x.frames[i].lastffctempc)
        THEN {"C11:telemetry"} ELSE {})

(* a file produced through the throttle: header, threshold and background of the trigger that produced it, and *)
(* its frames are frames of that trigger, in order                                                            *)
RECURSIVE IsSubseq(_, _)
IsSubseq(a, b) == IF a = <<>> THEN TRUE ELSE IF b = <<>> THEN FALSE
                  ELSE IF Head(a).pix = Head(b).pix THEN IsSubseq(Tail(a), Tail(b)) ELSE IsSubseq(a, Tail(b))
ThrottledFileViol(x, d) ==
  {"C11:header-" \o f : f \in {g \in HeaderFields : x[g] # d[g]}}
  \cup {"C11:motion-config-" \o k : k \in {j \in DOMAIN x.motion : j \notin DOMAIN d.motion \/ d.motion[j] # x.motion[j]}}
  \cup (IF ~d.hasbg \/ Len(d.frames) < 1 \/ ~d.frames[1].bg THEN {"C11:no-background-frame"}
        ELSE IF d.frames[1].pix # x.frames[1].pix THEN {"C11:background-not-the-one-at-trigger"} ELSE {})
  \cup (IF d.nframes # Len(d.frames) THEN {"C11:frame-count"} ELSE {})
  \cup (IF Len(d.frames) >= 1 /\ ~IsSubseq(Tail(d.frames), Tail(x.frames)) THEN {"C11:pixels"} ELSE {})

TInit == l = 1
TNext == /\ l <= Len(Trace) /\ l' = l + 1
         /\ \E E \in {Trace[l]} :
              \E v \in { CASE E.ev = "file" -> FileViol(E.expected, E.decoded)
                           [] E.ev = "tfile" -> ThrottledFileViol(E.expected, E.decoded)
                           [] E.ev = "fileset" -> (IF E.found # E.expected THEN {"C11:file-missing-or-extra"} ELSE {})
                                                  \cup (IF E.stray # <<>> THEN {"C11:stray-files"} ELSE {})
                           [] E.ev = "undecodable" -> {"C11:undecodable"}
                           [] E.ev = "starterr" -> {"C11:start-failed"}
                           \* a concurrent reader opens every *.cptv the moment its name appears: "finished" means decodable then
                           [] E.ev = "observe" -> (IF E.decodes THEN {} ELSE {"C11:finished-file-does-not-decode-when-it-appears"})
                           [] OTHER -> {} } :
                 IF v = {} THEN TRUE ELSE PrintT(<<"VIOL", l, v>>)
Consumed == TLCGet("stats").diameter - 1 = Len(Trace)
=============================================================================
