---------------------------- MODULE ThrConfTrace ----------------------------
(* Conformance: each recorded call of the real ThrottledRecorder must be a  *)
(* step of Throttle.tla (bucket accounting included) producing the same     *)
(* observable record.  The library variant (quirk) is chosen at "new".      *)
EXTENDS Throttle, Json, TLC
VARIABLE l
Trace == ndJsonDeserialize("trace.ndjson")
T == Trace[l]
TInit == l = 1 /\ Init
Okd(b) == IF b # <<>> /\ b[1].op = "start" THEN b[1].ok ELSE TRUE
Sokd(b) == \A i \in DOMAIN b : b[i].op = "stop" => b[i].ok
TNew  == /\ l <= Len(Trace) /\ T.ev = "new" /\ l' = l + 1
         /\ Cap' = T.Cap /\ MinLen' = T.MinLen /\ K' = T.K /\ quirk' \in {TRUE, FALSE}
         /\ phase' = 0 /\ behind' = 0 /\ avail' = T.Cap /\ recording' = FALSE /\ upOpen' = FALSE /\ ev' = NoEv
TCall == /\ l <= Len(Trace) /\ T.ev = "call" /\ l' = l + 1
         /\ CASE T.op = "start" -> UpStart(T.dt, Okd(T.base))
              [] T.op = "w"     -> UpWrite(T.dt, Okd(T.base), Sokd(T.base))
              [] T.op = "stop"  -> UpStop(T.dt, Sokd(T.base))
              [] OTHER -> FALSE
         /\ ev'.base = T.base /\ ev'.nev = T.nev /\ ev'.err = T.err
TSkip == /\ l <= Len(Trace) /\ T.ev = "pframe" /\ l' = l + 1      \* processor-level annotation, not a throttle call
         /\ UNCHANGED <<Cap, MinLen, K, quirk, phase, behind, avail, recording, upOpen, ev>>
TNext == TNew \/ TCall \/ TSkip
=============================================================================
