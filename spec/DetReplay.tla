------------------------------ MODULE DetReplay ------------------------------
(* DetCheck with the chosen frame carried as JSON, for TLC -simulate behaviours replayed on the real detector *)
EXTENDS DetCheck, Json
VARIABLE sc
RInit == CInit /\ sc = "init"
RNext == \/ /\ Len(hist) < MaxLen
            /\ \E f \in Frames : \E aff \in (IF WithFFC THEN BOOLEAN ELSE {FALSE}) :
                 /\ Detect(f, aff, NoTies, 0)
                 /\ hist' = Append(hist, [f |-> f, aff |-> aff]) /\ everAff' = (everAff \/ aff)
                 /\ lastThresh' = thresh /\ UNCHANGED nres
                 /\ sc' = ToJson([a |-> "frame", pix |-> f, aff |-> aff, cfg |-> dc])
         \/ CReset /\ sc' = ToJson([a |-> "reset"])
=============================================================================
