------------------------------ MODULE DetTrace ------------------------------
(* Traces of the real motionDetector judged by DetMon.tla. *)
EXTENDS DetMon, Json, TLC
VARIABLES l, mon
Trace == ndJsonDeserialize("trace.ndjson")
Cfg0 == [w |-> 1, h |-> 1, edge |-> 0, T |-> 0, delta |-> 0, cnt |-> 1, gap |-> 1, one |-> TRUE, warmer |-> FALSE,
         dyn |-> FALSE, tmin |-> 0, tmax |-> 0, preview |-> 0]
TInit == l = 1 /\ mon = DetMonInit(Cfg0)
TNext == /\ l <= Len(Trace) /\ l' = l + 1
         /\ \E E \in {Trace[l]} :
              IF E.ev = "dcfg"
              THEN mon' = DetMonInit([w |-> E.w, h |-> E.h, edge |-> E.edge, T |-> E.T, delta |-> E.delta, cnt |-> E.cnt,
                                      gap |-> E.gap, one |-> E.one, warmer |-> E.warmer, dyn |-> E.dyn,
                                      tmin |-> E.tmin, tmax |-> E.tmax, preview |-> E.preview])
              ELSE \E m1 \in {DetMonStep(mon, E)} :
                     /\ mon' = m1
                     /\ (IF m1.v = {} THEN TRUE ELSE PrintT(<<"VIOL", l, m1.v>>))
Consumed == TLCGet("stats").diameter - 1 = Len(Trace)
=============================================================================
