-------------------------- MODULE ConfigWatchTrace --------------------------
(* Runs of the unmodified runMain() whose config.toml is rewritten while it *)
(* runs, validated as behaviours of ConfigWatch.tla: "cw-start" (the        *)
(* configuration in force), "cw-write" (the new content in the model's      *)
(* abstraction, and whether the process was gone shortly afterwards).       *)
EXTENDS ConfigWatch, Json, TLC, Sequences
VARIABLE l
Trace == ndJsonDeserialize("trace.ndjson")
T == Trace[l]
TInit == /\ l = 1 /\ running = FALSE /\ pending = FALSE /\ writes = 0
         /\ inforce = [r |-> 0, m |-> 0] /\ file = [r |-> 0, m |-> 0, valid |-> TRUE]
TStart == /\ T.ev = "cw-start" /\ l' = l + 1
          /\ running' = TRUE /\ pending' = FALSE /\ writes' = 0
          /\ inforce' = [r |-> T.r, m |-> T.m] /\ file' = [r |-> T.r, m |-> T.m, valid |-> TRUE]
(* one rewrite is logged as two lines: the new content, then what the daemon did with the event *)
TWrite == /\ T.ev = "cw-write" /\ l' = l + 1
          /\ Rewrite([r |-> T.r, m |-> T.m, valid |-> T.valid])
THandle == /\ T.ev = "cw-handle" /\ l' = l + 1
           /\ Handle /\ running' = ~T.exited          \* the logged outcome must be the model's
TNext == l <= Len(Trace) /\ (TStart \/ TWrite \/ THandle)
Accepted == TLCGet("stats").diameter - 1 = Len(Trace)
=============================================================================
