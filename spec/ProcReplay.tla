---------------------------- MODULE ProcReplay ----------------------------
(***************************************************************************)
(* Processor.tla for ONE configuration with an `ev` variable that carries, *)
(* as JSON, the step that was taken.  TLC's state graph (-dump dot) and    *)
(* its random behaviours (-simulate) are turned into scripts for the real  *)
(* code: a transition cover executes every edge of the bounded graph once. *)
(* canMotion: the real detector can never report motion on the very first  *)
(* frame nor on the first frame after a reset - scripts that ask for it    *)
(* would be infeasible.                                                    *)
(***************************************************************************)
EXTENDS Processor, Json

CONSTANTS CN, CTrig, CMin, CMax, CConst, FaultLevel
VARIABLES ev, canMotion

rvars == <<pvars, ev, canMotion>>

RInit == /\ InitState
         /\ N = CN /\ TrigF = CTrig /\ MinF = CMin /\ MaxF = CMax /\ ConstOn = CConst
         /\ ev = "init" /\ canMotion = FALSE

RFrame(e) == /\ (e.motion => canMotion)
             /\ Frame(e)
             /\ canMotion' = TRUE
             /\ ev' = ToJson([a |-> "frame", motion |-> e.motion, win |-> e.win, disk |-> e.disk,
                              mStart |-> e.mStart, mPre |-> e.mPre, cStart |-> e.cStart, cStop |-> e.cStop,
                              sStart |-> e.sStart, sStop |-> e.sStop])
RBad(a, b) == BadFrame(a, b) /\ UNCHANGED canMotion
              /\ ev' = ToJson([a |-> "bad", mStop |-> a, cStop |-> b])
RReset(a)  == Reset(a) /\ canMotion' = FALSE /\ ev' = ToJson([a |-> "reset", mStop |-> a])
RSnap      == ~snapReq /\ SnapRequest /\ UNCHANGED canMotion /\ ev' = ToJson([a |-> "snapreq"])

RNext == \/ FrameAny(FaultLevel, RFrame)
         \/ (IF FaultLevel > 0 THEN \E a, b \in BOOLEAN : (a \/ rec) /\ (b \/ ConstOn) /\ RBad(a, b)
                               ELSE RBad(TRUE, TRUE))
         \/ (IF FaultLevel > 0 THEN \E a \in BOOLEAN : (a \/ rec) /\ RReset(a) ELSE RReset(TRUE))
         \/ RSnap
=============================================================================
