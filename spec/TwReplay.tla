------------------------------ MODULE TwReplay ------------------------------
(* ThermalWriter.tla with the action taken carried as JSON: TLC's state graph gives the interleavings that the
   harness replays on the real goroutines through the gates at the hook points. *)
EXTENDS ThermalWriter, Json
VARIABLE sc
RInit == Init /\ sc = "init"
RNext == \/ Take /\ sc' = ToJson([a |-> "r.take"])
         \/ Fill1 /\ sc' = ToJson([a |-> "r.fill1", k |-> rk])
         \/ Fill2 /\ sc' = ToJson([a |-> "r.fill2", k |-> rk])
         \/ Send /\ sc' = ToJson([a |-> "r.send"])
         \/ Eof /\ sc' = ToJson([a |-> "r.eof"])
         \/ Recv /\ sc' = ToJson([a |-> "w.recv"])
         \/ (W1 /\ sc' = ToJson([a |-> "w.w1"]))
         \/ (W2 /\ sc' = ToJson([a |-> "w.w2"]))
         \/ Return /\ sc' = ToJson([a |-> "w.return"])
         \/ FinalClose /\ sc' = ToJson([a |-> "w.close"])
=============================================================================
