------------------------------- MODULE Window -------------------------------
(***************************************************************************)
(* window.Window.Active() for absolute start/stop times, code-shaped:      *)
(*   nextAbsTime(now, t) = today's t if it is After(now), else tomorrow's  *)
(*   Active() = NextEnd().Before(NextStart())                              *)
(* against the declarative reading the observers use (ProcMon!WinOf): the  *)
(* window is the half-open interval [start, end) on the 24 h circle.       *)
(* Times are slots of a day of Day slots; checked for every start # end    *)
(* and every now.  (start = end is "no window": always open, decided by    *)
(* window.New before Active is ever computed.)                             *)
(***************************************************************************)
EXTENDS Integers

CONSTANT Day
VARIABLES s, e, now
NextAbs(n, t) == IF t > n THEN t ELSE t + Day
Active(n, st, en) == NextAbs(n, en) < NextAbs(n, st)
Open(n, st, en) == IF st < en THEN st <= n /\ n < en ELSE n >= st \/ n < en
(* the three-valued reading of the observers: at the two boundary instants either answer is accepted *)
WinOf(n, st, en) == IF n = st \/ n = en THEN "edge" ELSE IF Open(n, st, en) THEN "in" ELSE "out"

Init == s \in 0..(Day - 1) /\ e \in 0..(Day - 1) /\ s # e /\ now \in 0..(Day - 1)
Next == UNCHANGED <<s, e, now>>
CodeIsHalfOpen == Active(now, s, e) = Open(now, s, e)
ObserverSound  == /\ (WinOf(now, s, e) = "in" => Active(now, s, e))
                  /\ (WinOf(now, s, e) = "out" => ~Active(now, s, e))
=============================================================================
