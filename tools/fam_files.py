"""Family "files": C10 (and C11, see fam_files_c11) — cmd/thermal-recorder/cptvfilerecorder.go over go-cptv,
spec FileRecorder.tla."""
import json
import os
import re
import shutil
import subprocess

import vlib
from vlib import cfg as mkcfg

ASSUME_C10 = [
    "crash = SIGKILL of the process (no power-loss durability); POSIX rename/unlink atomicity",
    "kill points: strace -e inject=...:signal=SIGKILL on the n-th file-system call of the recording thread "
    "(runtime.LockOSThread); the kill position is read back from that run's own strace log",
    "'complete' = the go-cptv reader decodes the header and exactly NumFrames frames to EOF",
    "the clean-up judged is deleteTempFiles on the output directory it is given (motion + test recordings); "
    "continuous recordings live in a sub-directory the start-up clean-up does not visit",
]

SYSCALLS = "openat,write,close,unlinkat,renameat,renameat2,rename,unlink"
_RE = re.compile(r'^(\d+)\s+(\w+)\((.*)\)\s+=\s+(-?\d+|\?)')


def kind_of(path):
    if path.endswith(".cptv"):
        return "final"
    if path.endswith(".cptv.temp"):
        return "temp"
    if path.endswith(".cptv.temp.tmp"):
        return "scratch"
    return "other"


def parse_strace(path, outdir):
    """Returns (tid of the scenario thread, index of the begin mark among that thread's traced calls,
    abstract events after the mark, number of traced calls of that thread after the mark)."""
    lines = open(path, errors="replace").read().splitlines()
    tid = None
    for ln in lines:
        if "VERIF-MARK begin" in ln:
            tid = ln.split()[0]
            break
    if tid is None:
        return None, 0, [], 0
    before, after, seen_mark = 0, 0, False
    fds, ids, events = {}, {}, []
    ordinal, calls = {}, []          # per-syscall-name invocation counters of this thread (strace's when= counts per syscall)
    def rid(p):
        base = os.path.basename(p).split(".cptv")[0]
        if base not in ids:
            ids[base] = len(ids) + 1
        return ids[base]
    last_write_temp = {}
    for ln in lines:
        m = _RE.match(ln)
        if not m or m.group(1) != tid:
            continue
        name, args, ret = m.group(2), m.group(3), m.group(4)
        ordinal[name] = ordinal.get(name, 0) + 1
        if seen_mark and "VERIF-MARK end" not in ln:
            calls.append((name, ordinal[name]))
        if not seen_mark:
            before += 1
            if "VERIF-MARK begin" in ln:
                seen_mark = True
            continue
        if "VERIF-MARK end" in ln:
            break
        after += 1
        if name == "openat":
            pm = re.search(r'"([^"]+)"', args)
            if pm and pm.group(1).startswith(outdir) and ret not in ("?",) and int(ret) >= 0:
                p = pm.group(1)
                fds[ret] = p
                if "O_CREAT" in args:
                    events.append(dict(ev="sys", op="create", kind=kind_of(p), id=rid(p), n=after))
        elif name == "write":
            fd = args.split(",")[0].strip()
            if fd in fds:
                p = fds[fd]
                events.append(dict(ev="sys", op="write", kind=kind_of(p), id=rid(p), n=after))
                if kind_of(p) == "temp":
                    last_write_temp[rid(p)] = fd
        elif name == "close":
            fd = args.strip()
            if fd in fds:
                p = fds.pop(fd)
                events.append(dict(ev="sys", op="close", kind=kind_of(p), id=rid(p), n=after,
                                   last=(last_write_temp.get(rid(p)) == fd)))
        elif name in ("unlinkat", "unlink"):
            pm = re.search(r'"([^"]+)"', args)
            if pm and pm.group(1).startswith(outdir):
                events.append(dict(ev="sys", op="unlink", kind=kind_of(pm.group(1)), id=rid(pm.group(1)), n=after))
        elif name in ("renameat", "renameat2", "rename"):
            ps = re.findall(r'"([^"]+)"', args)
            if len(ps) == 2 and ps[0].startswith(outdir):
                events.append(dict(ev="sys", op="rename", kind=kind_of(ps[1]), id=rid(ps[0]), n=after,
                                   frm=kind_of(ps[0])))
    parse_strace.calls = calls
    return tid, before, events, after


def strace_ok():
    try:
        r = subprocess.run(["strace", "-o", "/dev/null", "true"], capture_output=True, timeout=20)
        return r.returncode == 0
    except Exception:
        return False


def run_c10(ctx):
    tier, rng = ctx.tier, ctx.sub_rng("fam_files.1")
    binp = ctx.go_test_build("./cmd/thermal-recorder", "tr.test")

    def t(name, env, timeout=120):
        e = dict(os.environ); e.update(env)
        return subprocess.run([binp, "-test.run", "^%s$" % name], env=e, capture_output=True, text=True, timeout=timeout)

    # ---- what does the real clean-up remove?
    ck_out = ctx.path("run", "cleankinds.json")
    r = t("TestVerifCleanKinds", dict(VERIF_OUT=ck_out))
    if r.returncode != 0:
        raise vlib.Infra("TestVerifCleanKinds failed: " + (r.stdout + r.stderr)[-2000:])
    removed = json.load(open(ck_out))["removed"]
    clean_kinds = {'"%s"' % k for k in removed if k in ("temp", "scratch", "final")}
    # ---- design check with the measured clean-up set (a violation here must be reproduced by the kill runs)
    d = ctx.tlc("design", "FileRecorder",
                mkcfg(constants=dict(MaxRec=3, CleanKinds=clean_kinds or {'"none"'}, RenameEarly=False),
                      invariants=["FinalsComplete", "NoDebrisAfterCleanup", "OnlyOneInProgress"]), timeout=600, heap="2g")
    design_violation = None if d["ok"] else (d["invariant_violated"] or ["?"])[0]
    if design_violation:
        ctx.notes.append("design model with the measured clean-up kinds %s violates %s; verdict left to the kill runs"
                         % (sorted(removed), design_violation))
    events = [dict(ev="cleankinds", removed=removed)]
    violations = []
    have_strace = strace_ok()
    ops_list = ["swwwwwwpswwwd", "spswwwwwwwwwwwwp"] if tier == "quick" else \
        ["swwwwwwpswwwd", "spswwwwwwwwwwwwp", "swdswwwwwwwwwwwwwwwwwwwwwpswp", "swwwwpswwwwpswwwwp"]
    kill_runs, kill_positions = 0, []
    replay_dirs = {}
    sys_events_total = 0
    if have_strace:
        for oi, ops in enumerate(ops_list):
            base = ctx.path("scen%d" % oi, "base", "x")[:-2]
            os.makedirs(base, exist_ok=True)
            log = ctx.path("scen%d" % oi, "base.strace")
            e = dict(os.environ, VERIF_DIR=base, VERIF_OPS=ops)
            r = subprocess.run(["strace", "-f", "-o", log, "-e", "trace=" + SYSCALLS, binp, "-test.run", "^TestVerifScenario$"],
                               env=e, capture_output=True, text=True, timeout=120)
            if r.returncode != 0:
                raise vlib.Infra("scenario under strace failed: " + (r.stdout + r.stderr)[-2000:])
            tid, before, sysev, total = parse_strace(log, base)
            if tid is None or not sysev:
                raise vlib.Infra("could not find the scenario in the strace log")
            events.append(dict(ev="sys", op="newproc", kind="", id=0))
            events += sysev
            sys_events_total += len(sysev)
            # ---- real kills: one run per call of the scenario thread, killed on entering that call
            calls = list(parse_strace.calls)
            points = list(range(1, len(calls) + 1))
            if tier == "quick" and len(points) > 28:
                points = sorted(rng.sample(points, 28))
            for k in points:
                sc_name, sc_ord = calls[k - 1]
                kd = ctx.path("scen%d" % oi, "kill%d" % k, "x")[:-2]
                os.makedirs(kd, exist_ok=True)
                klog = ctx.path("scen%d" % oi, "kill%d.strace" % k)
                e = dict(os.environ, VERIF_DIR=kd, VERIF_OPS=ops)
                subprocess.run(["strace", "-f", "-o", klog, "-e", "trace=" + SYSCALLS,
                                "-e", "inject=%s:signal=SIGKILL:when=%d" % (sc_name, sc_ord),
                                binp, "-test.run", "^TestVerifScenario$"], env=e, capture_output=True, text=True, timeout=120)
                _, _, kev, kdone = parse_strace(klog, kd)
                insp = ctx.path("scen%d" % oi, "kill%d.json" % k)
                r = t("TestVerifInspect", dict(VERIF_DIR=kd, VERIF_OUT=insp))
                if r.returncode != 0 or not os.path.exists(insp):
                    raise vlib.Infra("inspect failed: " + (r.stdout + r.stderr)[-2000:])
                res = json.load(open(insp))
                kill_runs += 1
                kill_positions.append(kdone)
                events.append(dict(ev="killrun", scenario=oi, ops=ops, point=k, calls_done=kdone,
                                   last_call=(kev[-1] if kev else None), before=res["before"], after=res["after"]))
                replay_dirs[len(events)] = (ops, k, before)
    else:
        ctx.notes.append("strace/ptrace not available: kill points chosen by random delays only")
    # ---- random-instant kills (no strace)
    nrand = 10 if tier == "quick" else 150
    for i in range(nrand):
        ops = rng.choice(ops_list)
        kd = ctx.path("rk", "kill%d" % i, "x")[:-2]
        os.makedirs(kd, exist_ok=True)
        e = dict(os.environ, VERIF_DIR=kd, VERIF_OPS=ops)
        p = subprocess.Popen([binp, "-test.run", "^TestVerifScenario$"], env=e, stdout=subprocess.DEVNULL, stderr=subprocess.DEVNULL)
        try:
            p.wait(timeout=rng.uniform(0.002, 0.08))
        except subprocess.TimeoutExpired:
            p.kill()
            p.wait()
        insp = ctx.path("rk", "kill%d.json" % i)
        r = t("TestVerifInspect", dict(VERIF_DIR=kd, VERIF_OUT=insp))
        res = json.load(open(insp))
        kill_runs += 1
        events.append(dict(ev="killrun", scenario=-1, ops=ops, point=-1, calls_done=-1, last_call=None,
                           before=res["before"], after=res["after"]))
    # ---- two recorders on one directory (motion + test recording, as handleConn wires them), started in the same
    #      millisecond and a few milliseconds apart: every *.cptv must still be a complete recording
    two_runs = 0
    for ops in ["swwwSWWWpP", "sSwWwWwWpP", "szSwWwWwWpzP", "swwSWWpzswwPp", "xswwwpxSWWP", "swwxSWWPp",
                # 'h': a start whose header the CPTV writer rejects (300-byte device name), alone and next to recordings
                "hswwwp", "swwhwwp", "swwwphz"]:
        for rep in range(3 if tier == "quick" else 20):
            kd = ctx.path("two", "%s_%d" % (ops, rep), "x")[:-2]
            os.makedirs(kd, exist_ok=True)
            r = t("TestVerifScenario", dict(VERIF_DIR=kd, VERIF_OPS=ops))
            if r.returncode != 0:
                raise vlib.Infra("two-recorder scenario failed: " + (r.stdout + r.stderr)[-1500:])
            insp = ctx.path("two", "%s_%d.json" % (ops, rep))
            r = t("TestVerifInspect", dict(VERIF_DIR=kd, VERIF_OUT=insp))
            res = json.load(open(insp))
            two_runs += 1
            ev2 = dict(ev="killrun", scenario=-2, ops=ops, point=-1, calls_done=-1, last_call=None,
                       before=res["before"], after=res["after"], tworec=True)
            if os.path.exists(kd + ".occupied.json"):
                ev2["reused"] = json.load(open(kd + ".occupied.json"))["reused"]
            events.append(ev2)
    # ---- the real start-up path: runMain() finds the debris of a crashed run
    import fam_e2e
    for const in (False, True):
        try:
            left, pre = fam_e2e.c10_startup(ctx, binp, const=const)
            events.append(dict(ev="killrun", scenario=-3, ops="runMain start-up (constant-recorder %s) with leftover %s" % (const, ",".join(pre)),
                               point=-1, calls_done=-1, last_call=None, before=[], after=left, startup=True))
        except fam_e2e.DaemonCrash as dc:
            ctx.notes.append("runMain crashed in the start-up clean-up scenario: " + dc.msg[-300:])
    # ---- concurrent observer
    obs_out = ctx.path("run", "observer.ndjson")
    r = t("TestVerifObserver", dict(VERIF_OUT=obs_out, VERIF_N=str(40 if tier == "quick" else 400)), timeout=600)
    if r.returncode != 0:
        raise vlib.Infra("observer run failed: " + (r.stdout + r.stderr)[-2000:])
    obs = [e for e in vlib.read_ndjson(obs_out) if e["ev"] == "observe"]
    events += obs
    # ---- TLC: conformance of the call sequence + observer clauses
    trace = ctx.path("run", "trace.ndjson")
    vlib.write_ndjson(trace, events)
    r = ctx.tlc("trace", "FileTrace",
                mkcfg(init="TInit", next_="TNext", post="Accepted", invariants=["FinalsComplete"],
                      constants=dict(MaxRec=1000, CleanKinds=clean_kinds or {'"none"'}, RenameEarly=False)),
                workers=1, files=[(trace, "trace.ndjson")], timeout=900, heap="2g")
    m = re.search(r'"REJECTED-AT",\s*(\d+)', r["out"])
    conf = dict(events_accepted=r.get("distinct", 1) - 1, rejected_at=None)
    if r["invariant_violated"]:
        conf["rejected_at"] = "model invariant %s violated along the observed call sequence" % r["invariant_violated"]
        print("DRIFT: FinalsComplete violated on the model state along the real call sequence (verdict left to the kill runs)")
    elif m:
        conf["rejected_at"] = events[int(m.group(1)) - 1]
        print("DRIFT: real call sequence rejected by FileRecorder.tla at %s (not a verdict)" % json.dumps(conf["rejected_at"])[:200])
        # the observer clauses after the rejected line still have to be judged: re-run without the sys events
        ev2 = [e for e in events if e["ev"] != "sys"]
        trace2 = ctx.path("run", "trace2.ndjson")
        vlib.write_ndjson(trace2, ev2)
        r = ctx.tlc("trace2", "FileTrace",
                    mkcfg(init="TInit", next_="TNext", post="Accepted",
                          constants=dict(MaxRec=1000, CleanKinds=clean_kinds or {'"none"'}, RenameEarly=False)),
                    workers=1, files=[(trace2, "trace.ndjson")], timeout=900, heap="2g")
        events = ev2
    seen = set()
    for (line, tags) in vlib.parse_viol(r["out"]):
        for tg in tags:
            e = events[line - 1]
            key = tg
            if e.get("tworec") and tg == "C10:partial-file-named-cptv":
                key = tg + "[two-recorders-same-millisecond]"
            if tg == "C10:debris-after-cleanup":
                kinds = sorted({f["kind"] for f in e["after"] if f["kind"] != "final" or not f["decodes"]})
                key = tg + "[" + ",".join(kinds) + "]"
            if key in seen:
                continue
            seen.add(key)
            rp = vlib.save_replay(ctx, key.replace(":", "_").replace("[", "_").replace("]", "").replace(",", "_"),
                                  dict(family="files", property="C10", clause=key, event=e))
            violations.append(dict(key=key, replay=rp, what=json.dumps({k: e.get(k) for k in ("ops", "point", "calls_done", "last_call", "after", "name", "msg")})[:400]))
    # ---- witness of known finding F-C10-3: a really full disk (2 MB tmpfs filled up and freed again under the real
    # processor and recorders): files get their final name although they could not be completed
    full_disk = dict(mounted=False)
    import fam_proc
    mnt = fam_proc.mount_small_fs(ctx, "smallfs")
    if True:
        try:
            # where mounting is not permitted: the same scripts under a file-size limit of the process (EFBIG instead of ENOSPC)
            _, fstats = fam_proc.real_sinks(ctx, tier, prop="C10", smallfs=mnt or "rlimit")
        finally:
            if mnt:
                fam_proc.umount(mnt)
        full_disk = dict(mounted=bool(mnt), scripts=fstats["scripts"], undecodable_published=fstats["undecodable_files_published_on_a_full_disk"])
        if fstats["undecodable_files_published_on_a_full_disk"] > 0:
            key = "C10:partial-file-named-cptv[disk-full]"
            rp = vlib.save_replay(ctx, "C10_partial_file_disk_full", dict(family="files", property="C10", clause=key, stats=fstats,
                                  note="see findings/C10-undecodable-cptv-on-full-disk.json"))
            violations.append(dict(key=key, replay=rp, what="%d undecodable *.cptv published in %d scripts on a full 2 MB file system"
                                   % (fstats["undecodable_files_published_on_a_full_disk"], fstats["scripts"])))
    finals = sum(1 for e in events if e["ev"] == "killrun" for f in e["before"] if f["kind"] == "final")
    coverage = dict(full_disk_runs=full_disk, states=d.get("distinct", 0), transitions=d.get("generated", 0),
                    traces_validated_against_impl=len(ops_list) if have_strace else 0,
                    samples=[dict(ops=ops_list[0], sys_events=[e for e in events if e["ev"] == "sys"][:12])],
                    exhaustive=(tier == "thorough"), design=dict(MaxRec=3, CleanKinds=sorted(removed), violation=design_violation),
                    syscall_events_validated=sys_events_total, kill_runs=kill_runs,
                    distinct_kill_positions=len(set(kill_positions)), strace=have_strace,
                    cptv_files_decoded_after_kills=finals, observer_files=len(obs), two_recorder_runs=two_runs,
                    evaluations=kill_runs + len(obs), distinct_nontrivial=len(set(kill_positions)) + len(obs),
                    rule="one real SIGKILL per chosen file-system call index of each scenario (+ random instants) followed by a "
                         "full decode of every *.cptv and the real clean-up; distinct = distinct kill positions + observed files",
                    conformance=conf)
    return vlib.finish(ctx, violations, coverage, ASSUME_C10)


def run(ctx):
    if ctx.prop == "C10":
        return run_c10(ctx)
    import fam_files_c11
    return fam_files_c11.run(ctx)


def replay(ctx, path):
    print("replay: re-run ./check %s (kill runs are regenerated from the scenario list)" % ctx.prop)
    return run(ctx)
