"""Family "throttle": C05 C06 — throttle/throttled_recorder.go over juju/ratelimit,
specs Throttle.tla (code-shaped), ThrMon.tla (observer)."""
import json
import os
import subprocess

import vlib
from vlib import cfg as mkcfg

ASSUME = [
    "time is the harness clock in ms (ratelimit.Clock injected); configurations are generated so that the bucket's fill "
    "interval is a whole number K of ms (min-refill = K * (min+preview)*fps ms) and fewer than 5e5 ticks elapse per script, "
    "so float truncation of the interval cannot move a tick",
    "budget bounds: exact token accounting (lo) and ratelimit v1.0.1 accounting with the stale-latestTick extra token (hi); "
    "demanding clauses use lo, forbidding clauses use hi; C05 allows the stated 1% + 2 frames",
    "the upstream client is well-formed (start only when idle, write/stop only after a start returned nil), as the "
    "MotionProcessor is; in proc mode the real MotionProcessor+detector is the client",
]


def design_consts(tier):
    if tier == "quick":
        return dict(CCap=3, CMinLen=2, CK=2, Quirks={"TRUE", "FALSE"}, Steps={0, 1, 2, 3, 8})
    return dict(CCap=4, CMinLen=2, CK=3, Quirks={"TRUE", "FALSE"}, Steps={0, 1, 2, 3, 4, 9, 15})


def gen_direct(rng, long=False):
    fps = rng.choice([1, 2, 3, 9])
    bucket = rng.choice([1, 2, 3, 6])
    minlen = rng.choice([1, 1, 2, 3])
    k = rng.choice([1, 2, 3, 7, 50, 111, 500, 833, 1000])      # min-refill = k * min-length frames ms: whole and fractional seconds
    cap, ml = bucket * fps, minlen * fps
    frame = max(1, 1000 // fps)
    steps, up = [], False
    n = rng.randint(30, 150) if not long else rng.randint(300, 800)
    total = 0
    while len(steps) < n:
        r = rng.random()
        d = rng.choice([0, 0, 1, frame, frame, k - 1, k, k + 1, k * ml, k * (cap + 1), k * cap - 1, 10 * k * cap])
        d = max(0, d)
        if total + d > 400000 * k:
            d = 0
        total += d
        if not up:
            if r < 0.75:
                ok = rng.random() < 0.85
                steps.append(dict(a="start", d=d, ok=ok)); up = ok
            else:
                steps.append(dict(a="adv", d=d))
        else:
            if r < 0.86:
                burst = rng.choice([1, 1, 2, ml, cap, cap + 2])
                for _ in range(burst):
                    steps.append(dict(a="w", d=rng.choice([0, frame, frame, d]), ok=rng.random() < 0.9, sok=rng.random() < 0.8))
            elif r < 0.97:
                steps.append(dict(a="stop", d=d, sok=rng.random() < 0.7)); up = False
            else:
                steps.append(dict(a="adv", d=d))
    return dict(mode="direct", cfg=dict(fps=fps, bucket=bucket, minlen=minlen, k=k), steps=steps)


def gen_refill_probe(rng):
    """drain the bucket just before a multiple of min-refill (= K * min-length frames after construction), then ask
    for frames just after it: only the refill earned in between may be stored, however the refill is batched"""
    fps = rng.choice([1, 2, 3, 9])
    bucket = rng.choice([1, 2, 3])
    minlen = rng.choice([2, 3, 4])
    k = rng.choice([2, 7, 50, 111])
    cap, ml = bucket * fps, minlen * fps
    period = k * ml
    steps = []
    j = rng.randint(1, 4)
    before = rng.choice([1, 2, k - 1 if k > 2 else 1])
    steps.append(dict(a="adv", d=j * period - before))          # bucket is full (long idle)
    steps.append(dict(a="start", d=0, ok=True))
    for _ in range(cap + 3):                                     # drain it; the throttle cuts the file
        steps.append(dict(a="w", d=0, ok=True))
    steps.append(dict(a="stop", d=0))
    steps.append(dict(a="adv", d=before + rng.choice([0, 1])))   # cross the refill instant
    steps.append(dict(a="start", d=0, ok=True))
    for _ in range(ml + cap + 3):
        steps.append(dict(a="w", d=0, ok=True))
    steps.append(dict(a="stop", d=0))
    # and once more one period later, writing at frame pace
    steps.append(dict(a="adv", d=period - 2))
    steps.append(dict(a="start", d=0, ok=True))
    for _ in range(2 * ml + cap):
        steps.append(dict(a="w", d=rng.choice([0, 1]), ok=True))
    steps.append(dict(a="stop", d=0))
    return dict(mode="direct", cfg=dict(fps=fps, bucket=bucket, minlen=minlen, k=k), steps=steps)


def gen_proc(rng):
    fps = rng.choice([1, 2, 3])
    preview, trig = rng.choice([0, 1, 2]), rng.choice([0, 1, 2])
    if preview * fps + trig < 1:
        trig = 1
    mn = rng.choice([0, 1, 2]); mx = mn + rng.choice([0, 1, 3])
    if mn + preview == 0:
        mn, mx = 1, max(mx, 1)
    bucket = rng.choice([1, 2, 4, 8])
    k = rng.choice([1, 5, 400, 1000, 3000])
    frame = 1000 // fps
    steps = []
    cont = rng.random() < 0.5       # continuous motion
    for i in range(rng.randint(60, 300)):
        r = rng.random()
        if r < 0.01:
            steps.append(dict(a="reset", d=0, sok=rng.random() < 0.7))
        else:
            steps.append(dict(a="frame", d=frame if rng.random() < 0.95 else rng.choice([0, 10 * frame, k * bucket * fps * 2]),
                              motion=(True if cont else rng.random() < 0.7), ok=rng.random() < 0.97, sok=rng.random() < 0.9))
    # stretches with too little free disk space (the storage layer's check fails): nothing may be started on them
    if rng.random() < 0.5:
        i = 0
        while i < len(steps):
            if rng.random() < 0.08:
                for st in steps[i:i + rng.randint(3, 25)]:
                    if st["a"] == "frame":
                        st["disk"] = False
                i += 25
            i += 1
    return dict(mode="proc", cfg=dict(fps=fps, bucket=bucket, k=k, preview=preview, trig=trig, min=mn, max=mx), steps=steps)


def drive(ctx, scripts, name="trace"):
    drv = ctx.go_build("./zzverif/thrdrv", "thrdrv")
    inp = ctx.path("run", name + ".json")
    json.dump(dict(scripts=scripts), open(inp, "w"))
    outp = ctx.path("run", name + ".ndjson")
    with open(outp, "w") as fo:
        r = subprocess.run([drv, inp], stdout=fo, stderr=subprocess.PIPE, text=True, timeout=900)
    if r.returncode != 0:
        raise vlib.Infra("thrdrv failed: " + r.stderr[-3000:])
    return outp


def judge(ctx, trace, name="mon"):
    nev = sum(1 for _ in open(trace))
    r = ctx.tlc(name, "ThrTrace", mkcfg(init="TInit", next_="TNext", post="Consumed"), workers=1,
                files=[(trace, "trace.ndjson")], timeout=1800, heap="4g")
    if r.get("distinct", 0) != nev + 1:
        raise vlib.Infra("ThrTrace did not consume the trace (%s/%d)\n%s" % (r.get("distinct"), nev, vlib.tail_err(r["out"])))
    return vlib.parse_viol(r["out"]), nev


def conform(ctx, trace, name="conf"):
    nev = sum(1 for _ in open(trace))
    r = ctx.tlc(name, "ThrConfTrace", mkcfg(init="TInit", next_="TNext", constants=dict(CCap=1, CMinLen=1, CK=1, Quirks={"FALSE"}, Steps={0})), workers=1,
                files=[(trace, "trace.ndjson")], timeout=1800, heap="4g")
    depth = r.get("depth", 0)
    return (None if depth - 1 >= nev else depth), depth - 1


def run(ctx):
    prop, tier, rng = ctx.prop, ctx.tier, ctx.sub_rng("fam_throttle.1")
    consts = design_consts(tier)
    d = ctx.tlc("design", "ThrCheck", mkcfg(init="CInit", next_="CNext", constants=consts,
                                            invariants=["NoViolation", "TypeOK", "MonAgrees"], view="CView"),
                timeout=3000, heap="6g")
    if not d["ok"]:
        raise vlib.Infra("Throttle design check failed (spec/monitor bug, not a verdict):\n" + vlib.tail_err(d["out"], 80))
    scripts = []
    # (a) cover of a small replay graph, mapped to fps=1 (Cap = bucket s, MinLen = minlen s, K ms)
    rc = dict(CCap=2, CMinLen=2, CK=2, Quirks={"TRUE"}, Steps={0, 1, 2, 6}) if tier == "quick" else \
        dict(CCap=3, CMinLen=2, CK=2, Quirks={"TRUE"}, Steps={0, 1, 2, 3, 8})
    r = ctx.tlc("replay", "ThrReplay", mkcfg(init="RInit", next_="RNext", constants=rc),
                args=["-dump", "dot,actionlabels", "graph"], timeout=900, heap="4g", expect_ok=True)
    inits, nodes, edges = vlib.parse_dot(os.path.join(r["dir"], "graph.dot"), evvar="sc")
    paths, ne = vlib.transition_cover(inits, nodes, edges, maxlen=60, rng=ctx.sub_rng("throttle.cover"), limit=2500 if tier == "quick" else None)
    for p in paths:
        fps = ctx.sub_rng("throttle.coverfps").choice([1, 1, 2]) if rc["CCap"] % 2 == 0 and rc["CMinLen"] % 2 == 0 else 1
        scripts.append(dict(mode="direct", cfg=dict(fps=fps, bucket=rc["CCap"] // fps, minlen=rc["CMinLen"] // fps, k=rc["CK"]),
                            steps=[nodes[x] for x in p if nodes.get(x)], origin="cover"))
    ncover = len(scripts)
    nrand = 150 if tier == "quick" else 3000
    for i in range(nrand):
        scripts.append(dict(gen_direct(rng, long=(i % 12 == 0)), origin="random"))
    nprobe = 60 if tier == "quick" else 800
    for i in range(nprobe):
        scripts.append(dict(gen_refill_probe(rng), origin="refill-probe"))
    nproc = 60 if tier == "quick" else 1200
    for i in range(nproc):
        scripts.append(dict(gen_proc(rng), origin="proc"))
    trace = drive(ctx, [dict(mode=s["mode"], cfg=s["cfg"], steps=s["steps"]) for s in scripts])
    events = vlib.read_ndjson(trace)
    viol, nev = judge(ctx, trace)
    owner, cur, starts = [], -1, {}
    for i, e in enumerate(events):
        if e["ev"] == "new":
            cur = e["script"]; starts[cur] = i
        owner.append(cur)
    violations, others, seen = [], {}, set()
    for (line, tags) in viol:
        for t in tags:
            if t.startswith("ANY:"):
                t = prop + t[3:]
            if not t.startswith(prop + ":"):
                others[t] = others.get(t, 0) + 1
                continue
            if t in seen:
                continue
            seen.add(t)
            si = max(0, owner[line - 1])
            st0 = starts.get(si, 0)
            rp = vlib.save_replay(ctx, t.replace(":", "_"), dict(family="throttle", property=prop, clause=t,
                                  script=scripts[si], event=line - 1 - st0, observed=events[line - 1]))
            violations.append(dict(key=t, replay=rp, what="script %d (%s) event %d" % (si, scripts[si]["origin"], line - 1 - st0)))
    # ---- witness of known finding F-C06-1 (reported as KNOWN-FINDING while it exists): min-secs + preview-secs = 0
    if prop == "C06":
        wit = json.load(open(os.path.join(vlib.VERIF, "findings", "C06-zero-min-length-panic.json")))
        wtrace = drive(ctx, [wit["script"]], "witness_zero_minlen")
        if any(e.get("op") == "panic" for e in vlib.read_ndjson(wtrace)):
            key = "C06:throttle-construction-panics[min-secs+preview-secs=0]"
            rp = vlib.save_replay(ctx, "C06_zero_min_length", dict(wit, observed=[e for e in vlib.read_ndjson(wtrace)]))
            violations.append(dict(key=key, replay=rp, what="NewThrottledRecorderWithClock panics for a minimum recording length of 0 s"))
    # ---- wiring in cmd/thermal-recorder/main.go with the real clock (one-sided, generous margins)
    import fam_e2e
    binp = ctx.go_test_build("./cmd/thermal-recorder", "tr.test")
    wiring = fam_e2e.c05_wiring(ctx, binp)
    for wi, wr in enumerate(wiring):
        bad = None
        if prop == "C05" and wr["frames_stored"] > wr["bucket_frames"] + 2 + wr["settings"]["preview"] * wr["fps"] + 1:
            bad = "C05:wiring-budget-exceeded"
        if prop == "C06" and wr["frames_sent"] > 3 * wr["bucket_frames"] and wr["throttle_events"] < 1:
            bad = "C06:wiring-no-throttle-event"
        if bad and bad not in seen:
            seen.add(bad)
            rp = vlib.save_replay(ctx, bad.replace(":", "_"), dict(family="throttle", property=prop, clause=bad, run=wr))
            violations.append(dict(key=bad, replay=rp, what=json.dumps({k: wr[k] for k in ("fps", "bucket_frames", "frames_stored", "throttle_events")})))
    # ---- runMain with the throttle on and no refill within the run: Processor.tla x throttle composition (SystemTrace.tla)
    probe = fam_e2e.thr_probe_runs(ctx, binp)
    for v in fam_e2e.judge_c11(ctx, probe, binp):
        k = v["key"]
        if "thr-budget-exceeded" in k:
            key = "C05:e2e-budget-exceeded"
        elif "thr-start-without-full-clip" in k:
            key = "C06:e2e-start-without-full-clip"
        elif "motion-files-differ" in k:
            key = "C06:e2e-files-differ-from-throttle-model"
        elif "daemon-crashed" in k:
            key = prop + ":e2e-daemon-crashed"
        else:
            others[k] = others.get(k, 0) + 1
            continue
        if key.startswith(prop + ":") and key not in seen:
            seen.add(key)
            violations.append(dict(v, key=key))
    refill = fam_e2e.thr_refill_runs(ctx, binp) if prop == "C05" else []
    for wr in refill:
        bad = "C05:e2e-refill-budget-exceeded"
        if wr["frames_stored"] > wr["bound"] and bad not in seen:
            seen.add(bad)
            rp = vlib.save_replay(ctx, bad.replace(":", "_"), dict(family="throttle", property=prop, clause=bad, run=wr))
            violations.append(dict(key=bad, replay=rp, what=json.dumps({k: wr[k] for k in ("fps", "bucket_frames", "frames_stored", "elapsed_s", "bound")})))
    try:
        rej, acc = conform(ctx, trace)
    except vlib.Infra as e:
        rej, acc = 1, 0
        ctx.notes.append("conformance run failed: %s" % str(e)[:200])
    conf = dict(events_accepted=acc, rejected_at=None)
    if rej is not None:
        conf["rejected_at"] = dict(line=rej, script=owner[rej - 1] if rej - 1 < len(owner) else None)
        print("DRIFT: real trace rejected by Throttle.tla at line %d (not a verdict)" % rej)
        ctx.notes.append("conformance rejected at line %d" % rej)
    calls = [e for e in events if e["ev"] == "call"]
    fw = sum(1 for e in calls for b in e["base"] if b["op"] == "w")
    cuts = sum(1 for e in calls if e["op"] == "w" and [b["op"] for b in e["base"]] == ["stop"])
    supp = sum(1 for e in calls if e["op"] == "start" and not e["base"])
    restarts = sum(1 for e in calls if e["op"] == "w" and e["base"] and e["base"][0]["op"] == "start")
    sfail = sum(1 for e in calls for b in e["base"] if b["op"] == "start" and not b["ok"])
    distinct = len({json.dumps([s["cfg"], s["steps"]], sort_keys=True) for s in scripts})
    coverage = dict(states=d.get("distinct", 0), transitions=d.get("generated", 0),
                    traces_validated_against_impl=len(scripts),
                    samples=[dict(script=dict(cfg=scripts[0]["cfg"], steps=scripts[0]["steps"][:10]), trace=events[:6])],
                    exhaustive=True, design=dict(consts={k: (sorted(v) if isinstance(v, set) else v) for k, v in consts.items()}, depth=d.get("depth")),
                    cover_edges=ne, cover_scripts=ncover, random_scripts=nrand, processor_composition_scripts=nproc,
                    events_judged=nev, forwarded_frames=fw, cuts=cuts, suppressed_starts=supp, mid_trigger_restarts=restarts,
                    failed_base_starts=sfail, evaluations=len(scripts), distinct_nontrivial=distinct,
                    rule="transition cover of ThrReplay + seeded schedules (idle-then-burst, churn at the refill boundary, start "
                         "failures) + real MotionProcessor in front; distinct by (cfg, steps)",
                    conformance=conf, clauses_of_other_properties_fired=others,
                    e2e_throttle_probe_runs=[dict(settings={k: r["settings"][k] for k in ("min", "max", "preview", "bucket")}, fps=r["fps"],
                                                  trigger_frames=r["settings"]["motion"]["trigger-frames"],
                                                  files=[len(f.get("ids", [])) for f in r["result"]["files"] if f["kind"] == "final"])
                                             for r in probe if r["kind"] == "predict"],
                    e2e_refill_runs=[{k: wr[k] for k in ("fps", "bucket_frames", "frames_stored", "elapsed_s", "bound")} for wr in refill],
                    main_wiring_runs=[{k: wr[k] for k in ("fps", "bucket_frames", "frames_sent", "frames_stored", "throttle_events")} for wr in wiring])
    return vlib.finish(ctx, violations, coverage, ASSUME)


def replay(ctx, path):
    rp = json.load(open(path))
    s = rp["script"]
    trace = drive(ctx, [dict(mode=s["mode"], cfg=s["cfg"], steps=s["steps"])], "replay")
    viol, _ = judge(ctx, trace, "replaymon")
    tags = sorted({t for (_, ts) in viol for t in ts if t.startswith(ctx.prop + ":")})
    if tags:
        print("VIOLATION property=%s replay=%s" % (ctx.prop, path)); print("  clauses:", ", ".join(tags)); return 1
    print("replay: no clause fired"); return 0
