"""Family "snapshot": C16 — snapshot.go / service.go requesters vs. the frame loop; spec Snapshot.tla."""
import base64
import json
import os
import re
import subprocess

import vlib
import fam_e2e
from vlib import cfg as mkcfg

ASSUME = [
    "request goroutines call the exported service methods (TakeSnapshot / TakeTestRecording / CameraInfo) exactly as "
    "godbus dispatches them: each call on its own goroutine, concurrently with runMain's frame loop",
    "race clause: Go race detector on a -race build of the daemon (sound for the executions run, not a proof); each "
    "report is keyed by the pair of functions at the top of its two stacks",
    "frames are uniform-valued (every pixel = 1000 + frame number) so a mixture of two frames is visible; freshness is "
    "judged against the latest frame that had been drained from the socket and given 2 ms before the request started",
    "before the first frame of a connection there is nothing to return; the property is read as silent there",
]


def stream(rng, w, h, first, n, reqs, pace_ms=2, procs=0, clears=7):
    payload, pace, vals = bytearray(), [], []
    for i in range(first, first + n):
        if clears and i > first + 3 and (i - first) % clears == 0:
            payload += b"clear"          # camera reset between two frames: snapshots must keep returning the latest frame
            pace.append(len(payload)); vals.append(0)
        payload += fam_e2e.lepton_frame(w, h, 1000 + i, 1000 + i, 60000 + i * 100)
        pace.append(len(payload)); vals.append(1000 + i)
    fs = 640 + 2 * w * h
    dbus = []
    for rq in reqs:
        (member, at_frame, count, par) = rq[:4]
        d = dict(at_byte=fs * at_frame, member=member, count=count, parallel=par)
        if len(rq) > 4:
            d.update(rq[4])
        if member == "TakeSnapshot":
            d["intarg"] = -1
        dbus.append(d)
    return dict(header=dict(ResX=w, ResY=h, FPS=9, FrameSize=fs, Model="lepton3", Brand="flir", CameraSerial=4, Firmware="2.0.1"),
                payload=base64.b64encode(bytes(payload)).decode(), cuts=[], settle_ms=80, pace_at=pace, pace_vals=vals,
                pace_ms=pace_ms, dbus=dbus, gomaxprocs=procs, frame_vals=[v for v in vals if v]), [1000 + i for i in range(first, first + n)]


def race_pairs(out):
    pairs = []
    for blk in out.split("WARNING: DATA RACE")[1:]:
        blk = blk.split("==================")[0]
        stacks = re.split(r"\n\s*\n", blk)
        tops = []
        for st in stacks[:2]:
            fr = [f for f in re.findall(r"^\s+([\w./\-()*]+)\(\)\s*$", st, re.M)
                  if "thermal-recorder" in f and "TestVerif" not in f and "zz_verif" not in f]
            if fr:
                tops.append(fr[0].split("/")[-1])
        if len(tops) == 2:
            pairs.append(" <-> ".join(sorted(tops)))
        elif len(tops) == 1:
            pairs.append(tops[0] + " <-> (harness)")
        # no frame of the daemon in either stack: a race inside the test harness itself, not a verdict
    return pairs


def run(ctx):
    tier, rng = ctx.tier, ctx.sub_rng("fam_snapshot.1")
    # ---------------- design: the repaired locking discipline, all interleavings
    consts = dict(N=2, F=3, Synced=True, Reqs={2, 3}, TReqs={4})
    d = ctx.tlc("design", "Snapshot", mkcfg(spec="Spec", constants=consts, invariants=["NoRace", "WholeFrame", "Fresh"],
                                            properties=["NoStall", "LoopCompletes"]), timeout=1800, heap="4g")
    if not d["ok"]:
        raise vlib.Infra("Snapshot.tla (Synced) design check failed:\n" + vlib.tail_err(d["out"], 60))
    d1 = ctx.tlc("design_cap1", "Snapshot", mkcfg(spec="Spec", constants=dict(consts, N=1), invariants=["NoRace", "WholeFrame", "Fresh"],
                                                  properties=["NoStall", "LoopCompletes"]), timeout=1800, heap="4g")
    if not d1["ok"]:
        raise vlib.Infra("Snapshot.tla (Synced, capacity 1) design check failed:\n" + vlib.tail_err(d1["out"], 60))
    du = ctx.tlc("design_unsynced", "Snapshot", mkcfg(spec="Spec", constants=dict(consts, Synced=False), invariants=["NoRace"]),
                 timeout=600, heap="2g")
    ctx.notes.append("self-test: the unsynchronised variant of the model (pinned commit) violates NoRace: %s" % (not du["ok"]))
    events, sent_all = [], []
    # ---------------- real daemon under the race detector
    settings = dict(min=1, max=2, preview=1, const=True, throttle=False, motion=dict(fam_e2e.FIXED_MOTION, **{"trigger-frames": 1}))
    race_ok = True
    try:
        binr = ctx.go_test_build("./cmd/thermal-recorder", "tr.race.test", race=True)
    except vlib.Infra as e:
        race_ok = False
        ctx.notes.append("race build unavailable: " + str(e)[:200])
    nrace = 2 if tier == "quick" else 12
    races_seen = 0
    if race_ok:
        for k in range(nrace):
            w, h = rng.choice([(4, 3), (16, 12)])
            reqs = [("TakeSnapshot", rng.randint(2, 10), 30, 3), ("CameraInfo", rng.randint(0, 8), 30, 2),
                    ("TakeTestRecording", rng.randint(3, 20), 2, 1), ("TakeSnapshot", 30, 20, 2),
                    # requests that keep coming while the connection ends and the next one is set up
                    ("TakeSnapshot", 45, 400, 2, dict(bg=True, gap_us=300)), ("CameraInfo", 45, 400, 1, dict(bg=True, gap_us=300)),
                    ("TakeTestRecording", 46, 200, 1, dict(bg=True, gap_us=700))]
            c1, s1 = stream(rng, w, h, 1, 50, reqs)
            c2, s2 = stream(rng, w, h, 100, 62, reqs + [("TakeSnapshot", 44, 300, 2, dict(gap_us=200))])   # reconnect; frame counts overlap those of the first connection
            scen = dict(config=fam_e2e.toml(settings), prefiles=[], conns=[c1, c2])
            sp, op = ctx.path("e2e", "race%d.json" % k), ctx.path("e2e", "race%d.ndjson" % k)
            json.dump(scen, open(sp, "w"))
            r = subprocess.run([binr, "-test.run", "^TestVerifE2E$"], env=dict(os.environ, VERIF_SCEN=sp, VERIF_OUT=op),
                               capture_output=True, text=True, timeout=600)
            out = r.stdout + r.stderr
            if "WARNING: DATA RACE" not in out and (r.returncode != 0 or not os.path.exists(op)):
                if "panic:" in out:
                    events.append(dict(ev="crash", msg=out[-800:]))
                    continue
                raise vlib.Infra("race e2e run failed: " + out[-2500:])
            for pr in race_pairs(out):
                races_seen += 1
                events.append(dict(ev="race", pair=pr, run=k))
            if os.path.exists(op):
                collect(events, vlib.read_ndjson(op), s1 + s2, [c1, c2], check_pipeline=True)
    # ---------------- exact frame counts: one snapshot after the k-th frame of a connection, the same k after a reconnect
    binp0 = ctx.go_test_build("./cmd/thermal-recorder", "tr.test")
    for k in ([3, 7] if tier == "quick" else [1, 2, 3, 5, 7, 12, 20]):
        rq = [("TakeSnapshot", k, 1, 1, dict(sync=True)), ("TakeSnapshot", k + 4, 1, 1, dict(sync=True))]
        c1, s1 = stream(rng, 4, 3, 1, k + 6, rq, clears=0)
        c2, s2 = stream(rng, 4, 3, 100, k + 9, [("TakeSnapshot", k + 4, 1, 1, dict(sync=True)), ("TakeSnapshot", k + 5, 2, 1, dict(sync=True))], clears=0)
        c3, s3 = stream(rng, 4, 3, 200, k + 9, [("TakeSnapshot", k + 5, 1, 1, dict(sync=True))], clears=0)
        # requests before the camera has ever connected (they are answered with an error) must leave the pipeline alone
        c1["pre_dbus"] = ["CameraInfo", "TakeSnapshot", "TakeTestRecording", "CameraInfo"]
        try:
            evs = fam_e2e.run_e2e(ctx, binp0, dict(config=fam_e2e.toml(settings), prefiles=[], conns=[c1, c2, c3]), "exact%d" % k)
        except fam_e2e.DaemonCrash as dc:
            events.append(dict(ev="crash", msg=dc.msg[-800:]))
            continue
        collect(events, evs, s1 + s2 + s3, [c1, c2, c3], check_pipeline=False)
    # ---------------- stress without the race detector: capacity-1 ring, large frames, many cores
    binp = ctx.go_test_build("./cmd/thermal-recorder", "tr.test")
    nstress = 2 if tier == "quick" else 16
    for k in range(nstress):
        st = dict(min=1, max=2, preview=0, const=True, throttle=False, motion=dict(fam_e2e.FIXED_MOTION, **{"trigger-frames": 1}))   # ring capacity 1
        if k % 2:
            st["preview"] = 1
        w, h = (160, 120) if k % 2 == 0 else (32, 24)
        reqs = [("TakeSnapshot", 2, 400 if tier == "quick" else 1500, 6), ("TakeTestRecording", 5, 3, 1), ("CameraInfo", 3, 50, 1)]
        c1, s1 = stream(rng, w, h, 1, 60 if tier == "quick" else 150, reqs, pace_ms=1, procs=rng.choice([4, 8, 16]))
        if k % 2:
            c1["pre_dbus"] = ["TakeTestRecording", "CameraInfo"]
        try:
            evs = fam_e2e.run_e2e(ctx, binp, dict(config=fam_e2e.toml(st), prefiles=[], conns=[c1]), "stress%d" % k)
        except fam_e2e.DaemonCrash as dc:
            events.append(dict(ev="crash", msg=dc.msg[-800:]))
            continue
        collect(events, evs, s1, [c1], check_pipeline=True)
    # ---------------- requests while storage fails: real processor + three real CPTV recorders, each script run with and
    # without its test-recording requests (differential: the requests are the only difference)
    npairs = 25 if tier == "quick" else 300
    rs = []
    for i in range(npairs):
        fps = rng.choice([1, 2, 3])
        preview, trig = rng.choice([0, 1, 2]), rng.choice([1, 1, 2])
        mn = rng.choice([0, 1, 2]); mx = mn + rng.choice([1, 2, 4])
        steps = []
        for k in range(rng.randint(40, 110)):
            r = rng.random()
            if r < 0.07:
                steps += [dict(a="breakdir"), dict(a="snapreq"), dict(a="frame", motion=rng.random() < 0.5), dict(a="fixdir")] if rng.random() < 0.6 \
                    else [dict(a="breakdir")]
            elif r < 0.13:
                steps.append(dict(a="fixdir"))
            elif r < 0.15:
                steps.append(dict(a="bad"))
            elif r < 0.17:
                steps.append(dict(a="reset"))
            elif r < 0.24:
                steps.append(dict(a="snapreq"))
            else:
                steps.append(dict(a="frame", motion=rng.random() < 0.5))
        steps.append(dict(a="fixdir"))
        steps += [dict(a="frame", motion=False) for _ in range(preview * fps + trig + mx * fps + 25)]
        base = dict(Fps=fps, Preview=preview, Trig=trig, Min=mn, Max=mx, const=rng.random() < 0.5, blip=0)
        rs.append(dict(base, steps=steps))
        rs.append(dict(base, steps=[st for st in steps if st["a"] != "snapreq"]))
    # a test recording requested so that it starts on the very frame that triggers a motion recording: both recorders
    # open their files within the same Process call (recording names have millisecond resolution)
    trng = ctx.sub_rng("snapshot.trigger-frame-requests")
    for i in range(18 if tier == "quick" else 60):
        fps, preview, trig = trng.choice([1, 2, 3]), trng.choice([0, 1]), trng.choice([1, 2, 3])
        if i % 2:
            preview, trig = 0, 1          # nothing is written between the two starts: the same millisecond is most likely
        mn = trng.choice([1, 2]); mx = mn + trng.choice([2, 4])
        steps = [dict(a="frame", motion=False) for _ in range(trng.randint(1, 5))]
        steps += [dict(a="frame", motion=True) for _ in range(trig - 1)]
        steps += [dict(a="snapreq")]
        steps += [dict(a="frame", motion=True) for _ in range(trng.randint(3, 8))]
        steps += [dict(a="frame", motion=False) for _ in range(preview * fps + trig + mx * fps + 25)]
        base = dict(Fps=fps, Preview=preview, Trig=trig, Min=mn, Max=mx, const=trng.random() < 0.5, blip=0)
        rs.append(dict(base, steps=steps))
        rs.append(dict(base, steps=[st for st in steps if st["a"] != "snapreq"]))
    # file creation failing while the disk-space check still passes (the output directory replaced by a regular file):
    # StartRecording itself fails on the trigger frame and on every motion frame after it
    for i in range(6 if tier == "quick" else 40):
        fps, preview, trig = trng.choice([1, 2, 3]), trng.choice([0, 1]), trng.choice([1, 2])
        mn = trng.choice([1, 2]); mx = mn + trng.choice([2, 4])
        steps = [dict(a="frame", motion=False) for _ in range(trng.randint(2, 6))]
        steps += [dict(a="blockdir")]
        steps += [dict(a="frame", motion=True) for _ in range(trng.randint(trig + 1, trig + 6))]
        if trng.random() < 0.5:
            steps += [dict(a="snapreq"), dict(a="frame", motion=True), dict(a="frame", motion=False)]
        steps += [dict(a="fixdir")]
        steps += [dict(a="frame", motion=(k < 4)) for k in range(preview * fps + trig + mx * fps + 25)]
        base = dict(Fps=fps, Preview=preview, Trig=trig, Min=mn, Max=mx, const=False, blip=0)
        rs.append(dict(base, steps=steps))
        rs.append(dict(base, steps=[st for st in steps if st["a"] != "snapreq"]))
    npairs = len(rs) // 2
    inp, outp = ctx.path("run", "reqpairs.json"), ctx.path("run", "reqpairs.ndjson")
    json.dump(dict(scripts=rs), open(inp, "w"))
    r = subprocess.run([binp0, "-test.run", "^TestVerifRealSinks$"], env=dict(os.environ, VERIF_SCRIPT=inp, VERIF_OUT=outp),
                       capture_output=True, text=True, timeout=1800)
    if r.returncode != 0 or not os.path.exists(outp):
        raise vlib.Infra("real-sinks driver failed: " + (r.stdout + r.stderr)[-2500:])
    pe = vlib.read_ndjson(outp)
    if len(pe) != len(rs):
        raise vlib.Infra("real-sinks driver returned %d results for %d scripts" % (len(pe), len(rs)))
    for i in range(npairs):
        a, b = pe[2 * i], pe[2 * i + 1]
        events.append(dict(ev="reqpair", pair=i, panic_with=bool(a["panic"]), panic_without=bool(b["panic"]), panic=a["panic"][:300],
                           stale=int(a.get("stale_snapshots", 0)) + int(b.get("stale_snapshots", 0)), first_stale=a.get("first_stale", 0) or b.get("first_stale", 0),
                           **{"with": a.get("all") or [], "without": b.get("all") or []}, script=rs[2 * i]))
    # ---------------- runMain: a test recording requested in the middle of a motion recording (and while idle): the motion
    # and continuous files must be exactly the ones predicted without the request (SystemTrace.tla)
    e2e_viol = []
    overlap_runs = fam_e2e.c17_runs(ctx, binp0)
    for v in fam_e2e.judge_c11(ctx, overlap_runs, binp0):
        k = v["key"]
        if "daemon-crashed" in k:
            e2e_viol.append(dict(v, key="C16:request-crashes-pipeline[runMain]"))
        elif "motion-files-differ" in k or "continuous-files-differ" in k:
            e2e_viol.append(dict(v, key="C16:request-changes-recordings[runMain]"))
    tp = ctx.path("run", "snap.ndjson")
    vlib.write_ndjson(tp, events)
    t = ctx.tlc("mon", "SnapTrace", mkcfg(init="TInit", next_="TNext", post="Consumed"), workers=1,
                files=[(tp, "trace.ndjson")], timeout=1800, heap="4g")
    if t.get("distinct", 0) != len(events) + 1:
        raise vlib.Infra("SnapTrace did not consume the trace\n" + vlib.tail_err(t["out"]))
    violations, seen = [], set()
    for (line, tags) in vlib.parse_viol(t["out"]):
        for tg in tags:
            if tg in seen:
                continue
            seen.add(tg)
            e = events[line - 1]
            rp = vlib.save_replay(ctx, re.sub(r"[^A-Za-z0-9_]+", "_", tg)[:80], dict(family="snapshot", property="C16", clause=tg, event=e))
            violations.append(dict(key=tg, replay=rp, what=json.dumps(e)[:300]))
    for v in e2e_viol:
        if v["key"] not in seen:
            seen.add(v["key"])
            violations.append(v)
    snaps = [e for e in events if e["ev"] == "snap"]
    coverage = dict(states=d.get("distinct", 0) + d1.get("distinct", 0), transitions=d.get("generated", 0) + d1.get("generated", 0),
                    traces_validated_against_impl=nrace * int(race_ok) + nstress, samples=[snaps[0] if snaps else {"none": True}],
                    exhaustive=True, design=dict(N=[1, 2], F=3, requesters=3, unsynced_model_violates_NoRace=not du["ok"]),
                    race_detector_runs=nrace * int(race_ok), race_reports=races_seen, stress_runs=nstress,
                    request_pairs_on_real_sinks=npairs, runmain_requests_inside_motion_recordings=len(overlap_runs),
                    request_pairs_with_recordings=sum(1 for e in events if e["ev"] == "reqpair" and e["without"]),
                    snapshots_returned=len(snaps), snapshots_with_lower_bound=sum(1 for e in snaps if e["lb"] > 0),
                    distinct_snapshot_values=len({tuple(e["values"]) for e in snaps}),
                    evaluations=len(events), distinct_nontrivial=len({json.dumps([e.get("values"), e.get("lb")]) for e in snaps}) + 2,
                    rule="e2e runs of runMain with concurrent service calls across a reconnect under -race, and stress runs "
                         "(ring capacity 1 and 10, 160x120 and 32x24 frames, GOMAXPROCS 4..16, thousands of snapshots); "
                         "distinct = distinct (returned values, lower bound) pairs")
    return vlib.finish(ctx, violations, coverage, ASSUME)


def collect(events, evs, sent, conns, check_pipeline):
    for e in evs:
        if e["ev"] != "e2e-dbus":
            continue
        if "err" in e:
            events.append(dict(ev="reqerr", member=e["member"], err=e["err"]))
        elif e["member"] == "TakeSnapshot" and "reply" in e and "values" in e["reply"]:
            # lower bound: the cnt-th frame of the connection the returned frame belongs to, provided the processor
            # did not change during the request (cnt = frames completed on it when the request started)
            vals, lb = e["reply"]["values"], 0
            if e.get("same") and e.get("cnt", 0) >= 1 and len(vals) == 1:
                pc = e.get("pconn", -1)
                if 0 <= pc < len(conns):
                    # the processor of connection pc served the request from start to end: the image must be one of ITS
                    # frames, the cnt-th or a newer one (an image of an earlier connection counts as older)
                    pv = conns[pc]["frame_vals"]
                    if e["cnt"] <= len(pv):
                        lb = pv[e["cnt"] - 1]
                        if vals[0] not in pv:
                            vals = [min(vals[0], lb - 1)]
                else:
                    for c in conns:
                        pv = c["frame_vals"]
                        if vals[0] in pv and e["cnt"] <= len(pv):
                            lb = pv[e["cnt"] - 1]
                if e["reply"]["values"][0] == 0:
                    lb = max(lb, 1)      # an empty image although cnt >= 1 frames had completed on this processor
            events.append(dict(ev="snap", values=vals, lb=lb, sent=sent, conn=e["conn"], cnt=e.get("cnt", 0)))
        elif e["member"] == "CameraInfo" and "reply" in e:
            hdr = conns[e["conn"]]["header"]
            events.append(dict(ev="info", ok=all(str(v) == e["reply"]["map"].get(k) for k, v in hdr.items())))
    if check_pipeline:
        last = [e for e in evs if e["ev"] == "e2e-conn-done"]
        if last:
            stored = [x for f in last[-1]["constant"] if f["kind"] == "final" for x in f["ids"]]
            # every stored frame is one of the frames sent, in order, without repetition; only the unfinished tail may be missing
            exp = [v for v in sent if v in set(stored)]
            # and none of the frames of a connection up to the last one stored may be missing (no bad frames are sent,
            # the continuous recorder takes every frame from the first one on, across 'clear' markers too)
            holes, sset = [], set(stored)
            for c in conns:
                pv = c["frame_vals"]
                mine = [i for i, v in enumerate(pv) if v in sset]
                if mine:
                    holes += [v for v in pv[:mine[-1] + 1] if v not in sset]
            events.append(dict(ev="pipeline", stored=stored, expected=exp if is_prefix_per_conn(stored, sent) else sent, holes=holes))


def is_prefix_per_conn(stored, sent):
    it = iter(sent)
    return all(any(x == y for y in it) for x in stored) and len(set(stored)) == len(stored)


def replay(ctx, path):
    print("replay: re-run ./check C16 (schedules are produced by the Go scheduler / race detector)")
    return run(ctx)
