#!/usr/bin/env python3
"""Compile every driver once so that the Go build cache is warm."""
import os, sys
sys.path.insert(0, os.path.dirname(os.path.abspath(__file__)))
import vlib
ctx = vlib.Ctx("warm", "quick", 0)
try:
    repo = ctx.repo_copy()
    ext = os.path.join(repo, "zzverif")
    for d in sorted(os.listdir(ext)):
        if os.path.exists(os.path.join(ext, d, "main.go")):
            ctx.go_build("./zzverif/" + d, d)
            print("built", d)
finally:
    ctx.cleanup()
