"""Family "twriter": C18 — cmd/thermal-writer (reader/writer goroutines, buffer pool, CPTR files),
spec ThermalWriter.tla."""
import json
import os
import re
import subprocess

import vlib
from vlib import cfg as mkcfg

ASSUME = [
    "hook points (build tag verif) in cmd/thermal-writer/main.go: r.took, r.filled, r.sent, r.eof, w.recv, w.wrote, "
    "w.returned, w.exit; gates at r.took / r.filled / w.recv / w.wrote replay model interleavings; half frames are "
    "controlled by what the harness writes to the socket",
    "the real pool has 256 buffers; model schedules (Pool 1..3) are feasible for any larger pool",
    "writer completion is taken from the w.exit hook, not from timing; file rotation is exercised by shortening the "
    "one-minute interval through the verif hook verifRotateEvery (files are named with 1 s resolution, so rotations within "
    "one second reopen and truncate the same file: only the frames after the last rotation in that second can be on disk)",
    "data races: the Go race detector on a -race build of the same driver (free-running schedules)",
]


def run_driver(ctx, binp, scripts, name, race=False, test="TestVerifTW"):
    inp, outp = ctx.path("run", name + ".json"), ctx.path("run", name + ".ndjson")
    json.dump(dict(scripts=scripts), open(inp, "w"))
    r = subprocess.run([binp, "-test.run", "^%s$" % test], env=dict(os.environ, VERIF_SCRIPT=inp, VERIF_OUT=outp),
                       capture_output=True, text=True, timeout=1800)
    out = r.stdout + r.stderr
    races = out.count("WARNING: DATA RACE")
    if not os.path.exists(outp) or (r.returncode not in (0, 3) and races == 0 and "panic:" not in out):
        raise vlib.Infra("thermal-writer driver failed: " + out[-3000:])
    evs = vlib.read_ndjson(outp) if os.path.getsize(outp) else []
    if "panic:" in out and "goroutine" in out and r.returncode != 0:
        evs.append(dict(ev="twrun", script=len(evs), mode="crash", framesize=0, nframes=0, complete=0, files=[], exited=True,
                        panicked=True, races=0, infeasible="", herr=out[-600:], backlog=0))
    if races and evs:
        evs[-1]["races"] = races
        evs[-1]["race_report"] = out[out.find("WARNING: DATA RACE"):][:1500]
    return evs


def run(ctx):
    tier, rng = ctx.tier, ctx.sub_rng("fam_twriter.1")
    consts = dict(Pool=2, NF=3 if tier == "quick" else 4, MaxRot=1, EarlyReturn=False)
    d = ctx.tlc("design", "ThermalWriter",
                mkcfg(spec="Spec", constants=consts, invariants=["NoAlias", "Intact", "InOrder", "FlushAtEnd", "PoolConserved"],
                      properties=["Terminates"]), timeout=1800, heap="4g")
    if not d["ok"]:
        raise vlib.Infra("ThermalWriter design check failed:\n" + vlib.tail_err(d["out"], 60))
    if tier == "thorough":
        d3 = ctx.tlc("design3", "ThermalWriter",
                     mkcfg(spec="Spec", constants=dict(Pool=3, NF=5, MaxRot=2, EarlyReturn=False),
                           invariants=["NoAlias", "Intact", "InOrder", "FlushAtEnd", "PoolConserved"], properties=["Terminates"]),
                     timeout=3000, heap="6g")
        if not d3["ok"]:
            raise vlib.Infra("ThermalWriter design check (Pool 3) failed:\n" + vlib.tail_err(d3["out"], 60))
    # ---- interleavings from the model's state graph
    rc = dict(Pool=2, NF=3, MaxRot=0, EarlyReturn=False)
    r = ctx.tlc("replay", "TwReplay", mkcfg(init="RInit", next_="RNext", constants=rc),
                args=["-dump", "dot,actionlabels", "graph"], timeout=900, heap="4g", expect_ok=True)
    inits, nodes, edges = vlib.parse_dot(os.path.join(r["dir"], "graph.dot"), evvar="sc")
    paths, ne = vlib.transition_cover(inits, nodes, edges, maxlen=80, rng=ctx.sub_rng("twriter.cover"), limit=120 if tier == "quick" else None)
    scripts = []
    for p in paths:
        sched = [nodes[x] for x in p if nodes.get(x)]
        half_cut = any(s["a"] == "r.eof" for s in sched) and sum(1 for s in sched if s["a"] == "r.fill2") < sum(1 for s in sched if s["a"] == "r.fill1")
        scripts.append(dict(framesize=ctx.sub_rng("twriter.coverfs").choice([10, 64, 5000]), nframes=3, cut_last=half_cut, chunks=[], schedule=sched, mode="gated"))
    ngated = len(scripts)
    # ---- constructed extremes and free-running stress
    scripts.append(dict(framesize=2000, nframes=600, cut_last=False, chunks=[], mode="backlog"))         # 256 in flight, reader blocks, drain
    scripts.append(dict(framesize=100, nframes=300, cut_last=True, chunks=[7], mode="backlog"))           # EOF with a full queue
    for fs, nf in [(10, 5), (600, 9), (4096, 3), (39040, 2)]:      # header and frames in one segment
        scripts.append(dict(framesize=fs, nframes=nf, cut_last=(fs == 600), chunks=[], mode="free", coalesce=True))
    # file rotation mid-stream; files are named with 1 s resolution, so the shortened interval stays above one second
    for (fs, nf, rot, pause) in ([(100, 110, 1100, 20000)] if tier == "quick" else [(100, 110, 1100, 20000), (5000, 60, 1300, 50000), (10, 400, 1050, 8000)]):
        scripts.append(dict(framesize=fs, nframes=nf, cut_last=(nf == 60), chunks=[], mode="free", rotate_ms=rot, pause_us=pause))
    # a frame size beyond 16 bits (the frame-size field and the buffers must not truncate), always present
    scripts.append(dict(framesize=650000, nframes=3, cut_last=False, chunks=[65536, 1], mode="free", gomaxprocs=4, stall_ms=0, stall_every=1))
    nfree = 12 if tier == "quick" else 150
    for i in range(nfree):
        scripts.append(dict(framesize=rng.choice([10, 11, 1000, 38400, 39040, 650000 if i % 6 == 0 else 4096]),
                            nframes=rng.choice([0, 1, 2, 5, 257, 300, 700]) if i % 6 else rng.choice([0, 1, 40]),
                            cut_last=rng.random() < 0.4, chunks=rng.choice([[], [1], [3, 1000], [4096], [65536, 1]]),
                            mode="free", gomaxprocs=rng.choice([1, 2, 4, 8, 16]),
                            stall_ms=rng.choice([0, 0, 1, 5]), stall_every=rng.choice([1, 7, 50])))
    binp = ctx.go_test_build("./cmd/thermal-writer", "tw.test")
    events = run_driver(ctx, binp, scripts, "tw")
    # ---- the camera reconnects while the previous connection's writer is still draining its backlog (main()'s accept
    # loop serves the next connection as soon as handleConn returns at EOF): connections must stay independent
    rscripts = [dict(framesize=rng.choice([64, 1000, 5000]), n1=rng.choice([50, 70]), n2=rng.choice([5, 30]), stall_ms=rng.choice([30, 40]),
                     gap_ms=rng.choice([1100, 1300])) for _ in range(2 if tier == "quick" else 12)]
    recev = run_driver(ctx, binp, rscripts, "twreconn", test="TestVerifTWReconnect")
    events += recev
    # ---- the same free-running scripts under the race detector
    race_note = None
    try:
        binr = ctx.go_test_build("./cmd/thermal-writer", "tw.race.test", race=True)
        rs = [s for s in scripts if s["mode"] != "gated"][: (6 if tier == "quick" else 60)]
        rev = run_driver(ctx, binr, rs, "twrace", race=True)
        for e in rev:
            e["mode"] = "race-" + e["mode"]
        events += rev
    except vlib.Infra as e:
        race_note = "race build unavailable: %s" % str(e)[:200]
        ctx.notes.append(race_note)
    tp = ctx.path("run", "tw.trace.ndjson")
    vlib.write_ndjson(tp, events)
    t = ctx.tlc("mon", "TwTrace", mkcfg(init="TInit", next_="TNext", post="Consumed"), workers=1,
                files=[(tp, "trace.ndjson")], timeout=1800, heap="4g")
    if t.get("distinct", 0) != len(events) + 1:
        raise vlib.Infra("TwTrace did not consume the trace\n" + vlib.tail_err(t["out"]))
    violations, seen = [], set()
    for (line, tags) in vlib.parse_viol(t["out"]):
        for tg in tags:
            if tg in seen:
                continue
            seen.add(tg)
            e = events[line - 1]
            si = e.get("script", 0)
            rp = vlib.save_replay(ctx, tg.replace(":", "_"), dict(family="twriter", property="C18", clause=tg,
                                  script=(scripts[si] if e["mode"] in ("gated", "free", "backlog") and si < len(scripts) else None),
                                  observed={k: e[k] for k in e if k != "files"}, files=[dict(f, ids=f["ids"][:50]) for f in e["files"]]))
            violations.append(dict(key=tg, replay=rp, what=json.dumps({k: e[k] for k in ("mode", "framesize", "nframes", "complete", "exited", "herr", "infeasible")})[:300]))
    infeasible = sum(1 for e in events if e.get("infeasible"))
    coverage = dict(states=d.get("distinct", 0), transitions=d.get("generated", 0),
                    traces_validated_against_impl=len(events), samples=[dict(script=scripts[0], result={k: events[0][k] for k in events[0] if k != "files"})],
                    exhaustive=True, design=consts, graph_edges=ne, gated_schedules=ngated, infeasible_schedules=infeasible,
                    free_runs=nfree, reconnect_runs=len(rscripts), reconnect_frames_written_while_both_writers_alive=sum(e.get("backlog", 0) for e in recev), race_runs=sum(1 for e in events if e["mode"].startswith("race-")),
                    frames_checked=sum(len(f["ids"]) for e in events for f in e["files"]),
                    max_backlog=max([e.get("backlog", 0) for e in events] + [0]),
                    evaluations=len(events), distinct_nontrivial=len({json.dumps(s, sort_keys=True) for s in scripts}),
                    rule="transition cover of TwReplay (Pool 2, 3 frames) replayed through the gates + constructed backlog / "
                         "EOF-with-full-queue scenarios + free-running runs (GOMAXPROCS 1..16, writer stalls, frame sizes "
                         "10 B..650 KB, read segmentation) + the same under -race")
    return vlib.finish(ctx, violations, coverage, ASSUME)


def replay(ctx, path):
    rp = json.load(open(path))
    if not rp.get("script"):
        return run(ctx)
    binp = ctx.go_test_build("./cmd/thermal-writer", "tw.test")
    events = run_driver(ctx, binp, [rp["script"]], "replay")
    tp = ctx.path("run", "replay.trace.ndjson")
    vlib.write_ndjson(tp, events)
    t = ctx.tlc("replaymon", "TwTrace", mkcfg(init="TInit", next_="TNext", post="Consumed"), workers=1,
                files=[(tp, "trace.ndjson")], timeout=600, heap="2g")
    tags = sorted({tg for (_, ts) in vlib.parse_viol(t["out"]) for tg in ts})
    if tags:
        print("VIOLATION property=C18 replay=%s" % path); print("  clauses:", ", ".join(tags)); return 1
    print("replay: no clause fired"); return 0
