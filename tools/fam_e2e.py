"""End-to-end harness helpers (runMain + fake system bus + scripted camera connections), shared by C11, C14, C16,
C05 (wiring), C10 (start-up clean-up through runMain)."""
import base64
import json
import os
import re
import subprocess

import vlib
from vlib import cfg as mkcfg

DEFAULTS = {
    "lepton3": dict(dynamicthreshold="true", tempthresh="2900", deltathresh="50", countthresh="3", framecomparegap="45",
                    triggerframes="2", useonediffonly="true", warmeronly="true", edgepixels="1"),
    "lepton3.5": dict(dynamicthreshold="true", tempthresh="28000", deltathresh="200", countthresh="3", framecomparegap="45",
                      triggerframes="2", useonediffonly="true", warmeronly="true", edgepixels="1"),
}


def toml(settings):
    s = settings
    out = ['[thermal-recorder]', 'output-dir = "{OUT}"', 'min-secs = %d' % s["min"], 'max-secs = %d' % s["max"],
           'preview-secs = %d' % s["preview"], 'min-disk-space-mb = %d' % s.get("mindisk", 0),
           'constant-recorder = %s' % ("true" if s.get("const") else "false"),
           '[windows]', 'start-recording = "%s"' % s.get("window", ("12:00", "12:00"))[0],
           'stop-recording = "%s"' % s.get("window", ("12:00", "12:00"))[1],
           '[thermal-throttler]', 'activate = %s' % ("true" if s.get("throttle") else "false")]
    if s.get("throttle") or s.get("bucket"):
        out += ['bucket-size = "%s"' % s.get("bucket", "10m"), 'min-refill = "%s"' % s.get("refill", "10m")]
    out += ['[lepton]', 'frame-output = "{SOCK}"']
    if s.get("motion") is not None:
        out.append('[thermal-motion]')
        for k, v in s["motion"].items():
            out.append('%s = %s' % (k, ("true" if v else "false") if isinstance(v, bool) else v))
    out += ['[device]', 'id = %d' % s.get("deviceid", 7), 'name = "%s"' % s.get("device", "dev")]
    if s.get("location"):
        loc = s["location"]
        out += ['[location]', 'latitude = %s' % loc["lat"], 'longitude = %s' % loc["long"], 'altitude = %s' % loc["alt"],
                'accuracy = %s' % loc["acc"]]
    return "\n".join(out) + "\n"


FIXED_MOTION = {"dynamic-threshold": False, "temp-thresh": 100, "delta-thresh": 10, "count-thresh": 1,
                "frame-compare-gap": 1, "use-one-diff-only": True, "warmer-only": False, "edge-pixels": 0}


def lepton_frame(w, h, fid, level, t_ms, zero_at=None):
    raw = bytearray(640 + 2 * w * h)
    raw[2], raw[3], raw[4], raw[5] = (t_ms >> 8) & 255, t_ms & 255, (t_ms >> 24) & 255, (t_ms >> 16) & 255
    for k in range(w * h):
        raw[640 + 2 * k], raw[641 + 2 * k] = level >> 8, level & 255
    raw[640], raw[641] = fid >> 8, fid & 255
    if zero_at is not None:
        raw[640 + 2 * zero_at], raw[641 + 2 * zero_at] = 0, 0
    return bytes(raw)


def boson_frame(w, h, fid, level, zero_at=None):
    raw = bytearray(2 * w * h)
    for k in range(w * h):
        raw[2 * k], raw[2 * k + 1] = level & 255, level >> 8
    raw[0], raw[1] = fid & 255, fid >> 8
    if zero_at is not None:
        raw[2 * zero_at], raw[2 * zero_at + 1] = 0, 0
    return bytes(raw)


def build_conn(rng, settings, w, h, fps, model, first_id, nitems, with_clear=True, with_bad=False, brand="flir",
               clear_runs=False, sustain=0.0, rm_temps=0, end_in_motion=False, burst_after_clear=False):
    """Returns (conn dict for the driver, model events for SystemTrace, next id)."""
    boson = model == "boson"
    fsize = 2 * w * h if boson else 640 + 2 * w * h
    header = dict(ResX=w, ResY=h, FPS=fps, FrameSize=fsize, Model=model, Brand=brand,
                  CameraSerial=rng.choice([0, 5, 123456]), Firmware=rng.choice(["1.2.3", "0.0.0", "10.20.30"]))
    trig = settings["motion"].get("trigger-frames", 2) if settings.get("motion") else 2
    ev = [dict(ev="conn", N=settings["preview"] * fps + trig, TrigF=trig, MinF=settings["min"] * fps, MaxF=settings["max"] * fps,
               ConstOn=bool(settings.get("const")), firstid=first_id, newrun=(first_id == 1))]
    payload = bytearray()
    pace_at = []
    hot, fid, since = False, first_id, 0      # since: accepted frames since connection start / clear
    i = 0
    # clear_runs: markers also directly after the header and back to back (leptond restarts a camera whose first
    # frame after a restart fails again), at forced positions so that every connection has some
    forced = set()
    if clear_runs:
        forced = {0} if rng.random() < 0.3 else set()
        forced |= {rng.randrange(1, max(2, nitems - 2)) for _ in range(2)}
    # sustain: stretches of uninterrupted motion longer than max-secs (+ pre-trigger), so that recordings are split at
    # the maximum length while the trigger run is still going on
    sustain_left, after_bad = 0, 0
    maxf, nring = settings["max"] * fps, settings["preview"] * fps + trig
    if sustain and rng.random() < sustain:
        sustain_at = rng.randrange(2, max(3, nitems // 2))
    else:
        sustain_at = -1
    # rm_temps: before that many items the harness unlinks every *.cptv.temp of the output directory (the rename that
    # finishes the motion recording in progress will fail; nothing else may change).  With clear_runs as well, one of
    # them sits inside a forced stretch of motion and is followed by camera-restart markers two frames later.
    rm_items, rm_offsets = set(), []
    if rm_temps and nitems > 20:
        rm_items = set(rng.sample(range(4, nitems - 2), rm_temps))
        if clear_runs:
            i0 = rng.randrange(5, nitems - (trig + 10))
            sustain_at = i0
            storm = (i0, i0 + trig + 2, i0 + trig + 4)
            rm_items.add(storm[1])
            forced.add(storm[2])
    nopace = 0
    while i < nitems:
        r = rng.random()
        if i in rm_items:
            ev.append(dict(ev="rmtemps"))
            rm_offsets.append(len(payload))
        if i == sustain_at:
            sustain_left = maxf + nring + rng.randint(2, maxf + 5)
        if end_in_motion and i == nitems - (trig + 2):
            sustain_left = trig + 2        # the connection ends while a motion recording is (very likely) open
        if with_clear and ((r < 0.03 and since > 0) or i in forced):
            for _ in range(rng.choice([2, 2, 3]) if i in forced else 1):
                payload += b"clear"
                ev.append(dict(ev="clear"))
                pace_at.append(len(payload))
            pace_at.pop()
            since = 0
            if burst_after_clear and not any(j in rm_items for j in range(i, i + 8)):
                nopace = 3 + (i % 3)      # the marker and the next few frames reach the daemon in one piece (no waiting
                                          # for it in between): the reset must still take effect before the first of them
                i += 1
                continue
        elif with_bad and r < 0.06:
            z = rng.randrange(1, w * h)
            payload += boson_frame(w, h, 60000, 200, z) if boson else lepton_frame(w, h, 60000, 200, 60000 + fid * 100, z)
            ev.append(dict(ev="bad"))
            if rng.random() < 0.6:
                after_bad = trig + 1      # the scene changes across the bad frame: the next good frames still show motion
                                          # (a bad frame is skipped, it is not a camera reset)
        else:
            burst = rng.random() < 0.35 or sustain_left > 0 or after_bad > 0
            after_bad = max(0, after_bad - 1)
            sustain_left = max(0, sustain_left - 1)
            toggle = burst and since > 0
            if toggle:
                hot = not hot
            level = 300 if hot else 200
            payload += boson_frame(w, h, fid, level) if boson else lepton_frame(w, h, fid, level, 60000 + fid * 100)
            ev.append(dict(ev="frame", id=fid, motion=toggle))
            fid += 1
            since += 1
            if nopace > 0:
                nopace -= 1
                i += 1
                continue
        pace_at.append(len(payload))
        i += 1
    cuts = rng.choice([[], [1], [7, 100, 3], [fsize], [fsize - 1, 2], [5], [4, 1], [rng.randint(1, 3 * fsize) for _ in range(7)]])
    # file names have 1 ms resolution: never deliver two frames within the same millisecond
    conn = dict(header=header, payload=base64.b64encode(bytes(payload)).decode(), cuts=cuts, settle_ms=50,
                pace_at=pace_at, pace_ms=5)
    if rm_offsets:
        conn["rm_temps_at"] = rm_offsets
    return conn, ev, fid


class DaemonCrash(Exception):
    def __init__(self, msg, scen):
        Exception.__init__(self, msg)
        self.msg, self.scen = msg, scen


class DaemonExit(Exception):
    """the daemon called os.Exit(0) (it does so when config.toml changes in a relevant way)"""
    def __init__(self, events):
        Exception.__init__(self, "daemon exited")
        self.events = events


def run_e2e(ctx, binp, scen, name):
    sp, op = ctx.path("e2e", name + ".json"), ctx.path("e2e", name + ".ndjson")
    json.dump(scen, open(sp, "w"))
    tmpd = ctx.path("e2e", "tmp", "x")[:-2]
    os.makedirs(tmpd, exist_ok=True)
    r = subprocess.run([binp, "-test.run", "^TestVerifE2E$", "-test.paniconexit0"], env=dict(os.environ, VERIF_SCEN=sp, VERIF_OUT=op, TMPDIR=tmpd),
                       capture_output=True, text=True, timeout=300)
    if r.returncode != 0 and "unexpected call to os.Exit(0) during test" in (r.stdout + r.stderr):
        raise DaemonExit(vlib.read_ndjson(op) if os.path.exists(op) else [])
    if os.path.exists(op):
        st = [e for e in vlib.read_ndjson(op) if e["ev"] == "e2e-stall"]
        if st:
            # the daemon stopped reading the frame socket (ten consecutive items not taken within 2 s each)
            raise DaemonCrash("the daemon stopped reading the frame socket (connection %d, after %d bytes)\n%s"
                              % (st[0]["conn"], st[0]["sent"], st[0].get("log", "")[-1200:]), scen)
    if r.returncode != 0 and "panic:" in (r.stdout + r.stderr) and "goroutine" in (r.stdout + r.stderr):
        # the daemon itself crashed on a valid scenario: that is behaviour of the code under test, not of the harness
        raise DaemonCrash((r.stdout + r.stderr)[-2500:], scen)
    if r.returncode != 0 or not os.path.exists(op):
        raise vlib.Infra("e2e driver failed: " + (r.stdout + r.stderr)[-3000:])
    evs = vlib.read_ndjson(op)
    for e in evs:
        if e["ev"] == "e2e-error":
            raise vlib.Infra("e2e: " + e["err"] + "\n" + e.get("log", "")[-1500:])
    return evs


def gen_settings(rng, throttle=None):
    fps = rng.choice([1, 2, 3, 9])
    preview = rng.choice([0, 1, 1, 2])
    trig = rng.choice([0, 1, 2])
    if preview * fps + trig < 1:
        trig = 1
    mn = rng.choice([0, 1, 2]) if fps < 9 else rng.choice([0, 1])
    mx = mn + (rng.choice([0, 1, 2]) if fps < 9 else rng.choice([0, 1]))
    motion = dict(FIXED_MOTION, **{"trigger-frames": trig})
    r = rng.random()          # the optional threshold limits (0 = unset) are valid in every combination
    if r < 0.25:
        motion["temp-thresh-min"] = 50
    elif r < 0.4:
        motion["temp-thresh-max"] = 5000
    elif r < 0.55:
        motion["temp-thresh-min"], motion["temp-thresh-max"] = 50, 5000
    s = dict(min=mn, max=mx, preview=preview, const=rng.random() < 0.6, throttle=False,
             motion=motion, device=rng.choice(["dev", "trap-12", "ünï"]),
             deviceid=rng.choice([1, 7, 4242]))
    if rng.random() < 0.6:
        s["location"] = rng.choice([dict(lat="-43.5", long="172.5", alt="10.5", acc="3"), dict(lat="51.25", long="-0.75", alt="0", acc="12.5"),
                                    dict(lat="-36.875", long="174.75", alt="120", acc="0")])
    if throttle:
        s["throttle"] = True
        if mn + preview == 0:
            s["min"], s["max"] = 1, max(1, mx)
    return s, fps


def c11_events(ctx, binp):
    """e2e runs for C11's second sentence.  Returns (list of run records, stats, design-run info)."""
    rng, tier = ctx.sub_rng("fam_e2e.1"), ctx.tier
    runs = []
    nruns = 6 if tier == "quick" else 60
    for k in range(nruns):
        settings, fps = gen_settings(rng, throttle=(k % 3 == 2))
        if k % 6 == 1:
            # always present: only one of the optional threshold limits set, and min-secs < max-secs
            settings["motion"].pop("temp-thresh-max", None)
            settings["motion"]["temp-thresh-min"] = 50
            settings["max"] = settings["min"] + rng.choice([1, 2])
        if k % 6 == 3:
            settings["motion"].pop("temp-thresh-min", None)
            settings["motion"]["temp-thresh-max"] = 5000
            settings["max"] = settings["min"] + rng.choice([1, 2])
        if settings["throttle"]:
            settings["bucket"], settings["refill"] = "1h", "10m"      # a budget nothing here can exhaust: same files as off
        elif k % 3 == 1:
            settings["bucket"], settings["refill"] = "1s", "24h"      # throttling switched OFF: a tiny bucket must not matter
        w, h = rng.choice([(4, 3), (5, 4), (8, 6)])
        model = rng.choice(["lepton3", "lepton3.5", "boson"])
        conns, mev, fid = [], [], 1
        if k % 6 == 0:
            settings["const"] = True      # the continuous recorder across a reconnect (its directory already exists)
        for c in range(2 if k % 6 == 0 else rng.choice([1, 1, 2])):
            conn, ev, fid = build_conn(rng, settings, w, h, fps, model, fid, rng.randint(20, 90), with_bad=False, sustain=0.6)
            conns.append(conn)
            mev += ev
        scen = dict(config=toml(settings), prefiles=[], conns=conns)
        try:
            evs = run_e2e(ctx, binp, scen, "c11_%d" % k)
        except DaemonCrash as dc:
            runs.append(dict(kind="crash", settings=settings, fps=fps, model=model, msg=dc.msg, result=dict(files=[], constant=[])))
            continue
        last = [e for e in evs if e["ev"] == "e2e-conn-done"][-1]
        runs.append(dict(kind="predict", settings=settings, fps=fps, model=model, model_events=mev, result=last, scen_name="c11_%d" % k,
                         bus=[e for e in evs if e["ev"] == "e2e-end"][-1]["bus"],
                         scen=scen,
                         expected_motion={k2.replace("-", ""): (("true" if v else "false") if isinstance(v, bool) else str(v))
                                          for k2, v in settings["motion"].items()}))
    # camera-model defaults: no [thermal-motion] section at all, continuous recorder on so that files exist
    for model in ["lepton3", "lepton3.5"]:
        settings, fps = gen_settings(rng)
        settings["motion"], settings["const"] = None, True
        conn, ev, fid = build_conn(rng, dict(settings, motion={}), 4, 3, fps, model, 1, 3 * (settings["max"] * fps + 1) + 2, with_clear=False)
        try:
            evs = run_e2e(ctx, binp, dict(config=toml(settings), prefiles=[], conns=[conn]), "c11_def_" + model.replace(".", ""))
        except DaemonCrash as dc:
            runs.append(dict(kind="crash", settings=settings, fps=fps, model=model, msg=dc.msg, result=dict(files=[], constant=[])))
            continue
        last = [e for e in evs if e["ev"] == "e2e-conn-done"][-1]
        runs.append(dict(kind="defaults", settings=settings, fps=fps, model=model, result=last, expected_motion=DEFAULTS[model]))
    stats = dict(runs=len(runs), predicted_runs=nruns,
                 files=sum(len([f for f in r["result"]["files"] if f["kind"] == "final"]) +
                           len([f for f in r["result"]["constant"] if f["kind"] == "final"]) for r in runs))
    return runs, stats, {}


def system_trace(runs):
    """ndjson events for SystemTrace.tla"""
    out, index = [], []
    for ri, r in enumerate(runs):
        if r["kind"] != "predict":
            continue
        out += r["model_events"]
        res = r["result"]
        out.append(dict(ev="files", motion=[f.get("ids", []) for f in res["files"] if f["kind"] == "final"],
                        constant=[f.get("ids", []) for f in res["constant"] if f["kind"] == "final"], ntest=r.get("ntest", 0)))
        if r.get("bus") is not None:
            bus = r["bus"]
            out.append(dict(ev="bus", ffc=[c["args"] == "true" for c in bus if c["member"] == "SetAutoFFC"],
                            restarts=sum(1 for c in bus if c["member"] == "RestartCamera"),
                            badevents=sum(1 for c in bus if c["member"] == "Add" and "bad-thermal-frame" in c["args"]),
                            ntest=r.get("ntest", 0)))
        index.append((len(out), ri))
    return out, index


def judge_c11(ctx, runs, binp=None, second_pass=False):
    violations = []
    tr, index = system_trace(runs)
    tp = ctx.path("e2e", "system.ndjson")
    vlib.write_ndjson(tp, tr)
    r = ctx.tlc("system", "SystemTrace",
                mkcfg(init="TInit", next_="TNext", post="Consumed",
                      constants=dict(MaxN=64, MaxTrig=8, MaxMin=64, MaxMax=64, MaxFid=1000000, SnapLen=20, Legacy=False)),
                workers=1, files=[(tp, "trace.ndjson")], timeout=1800, heap="4g")
    if r.get("distinct", 0) != len(tr) + 1:
        raise vlib.Infra("SystemTrace did not consume the e2e trace (%s/%d):\n%s" % (r.get("distinct"), len(tr), vlib.tail_err(r["out"])))
    flagged = sorted({[x for (ln, x) in index if ln >= int(m.group(1))][0]
                      for m in re.finditer(r'<<\s*"VIOL",\s*(\d+),\s*\{([^}]*)\}', r["out"])})
    if flagged and binp and not second_pass:
        # timing robustness: a real deviation is deterministic, so the flagged scenarios are repeated once, slower
        for ri in flagged:
            sc = json.loads(json.dumps(runs[ri]["scen"]))
            for c in sc["conns"]:
                c["pace_ms"] = 15
            evs = run_e2e(ctx, binp, sc, "retry_%d" % ri)
            runs[ri]["result"] = [e for e in evs if e["ev"] == "e2e-conn-done"][-1]
            ctx.notes.append("e2e run %d repeated with slower pacing after a mismatch" % ri)
        return judge_c11(ctx, runs, binp, second_pass=True)
    for m in re.finditer(r'<<\s*"VIOL",\s*(\d+),\s*\{([^}]*)\}', r["out"]):
        line = int(m.group(1))
        ri = [x for (ln, x) in index if ln >= line][0]
        run = runs[ri]
        for tg in re.findall(r'"([^"]+)"', m.group(2)):
            if tg in ("SYS:camera-restart-requests", "SYS:bad-frame-events"):
                key = "C13:e2e-" + tg.split(":")[1]           # the daemon-level half of C13 (report + camera restart)
            elif tg.startswith("SYS:auto-ffc"):
                ctx.notes.append("beyond the listed properties: %s (run %d)" % (tg, ri))
                print("NOTE: %s in e2e run %d (automatic FFC bracketing is modelled but is not one of the listed properties)" % (tg, ri))
                continue
            else:
                key = "C11:settings-do-not-shape-files[" + tg.split(":")[1] + "]"
            rp = vlib.save_replay(ctx, "e2e_%d" % ri, dict(family="files", property="C11", clause=key, settings=run["settings"],
                                  fps=run["fps"], model=run["model"], observed=tr[line - 1], model_events=run["model_events"][:200]))
            violations.append(dict(key=key, replay=rp, what="settings=%s fps=%d model=%s" % (json.dumps(run["settings"]), run["fps"], run["model"])))
    for ri, run in enumerate(runs):
        if run["kind"] == "crash":
            rp = vlib.save_replay(ctx, "e2e_crash_%d" % ri, dict(family="files", property="C11", clause="C11:daemon-crashed",
                                  settings=run["settings"], model=run["model"], panic=run["msg"]))
            violations.append(dict(key="C11:daemon-crashed", replay=rp, what=run["msg"][-300:].replace("\n", " | ")))
    # header of every produced file: device, camera description, preview, motion configuration in force
    for ri, run in enumerate(runs):
        res, s = run["result"], run["settings"]
        for f in res["files"] + res["constant"]:
            if f["kind"] != "final":
                continue
            bad = []
            if not f.get("decodes"):
                bad.append("undecodable")
            else:
                hd = f["header"]
                exp = dict(device=s.get("device", "dev"), deviceid=s.get("deviceid", 7), brand="flir", model=run["model"],
                           fps=run["fps"], preview=s["preview"])
                bad += ["header-" + k for k, v in exp.items() if hd.get(k) != v]
                if s.get("location"):
                    loc = s["location"]
                    for k in ("lat", "long", "alt", "acc"):
                        if float(hd.get(k, "nan")) != float(loc[k]):
                            bad.append("header-" + k)
                mo = dict(re.findall(r'^(\w+): (.*)$', hd.get("motion", ""), re.M))
                bad += ["motion-" + k for k, v in run["expected_motion"].items() if mo.get(k) != v]
                if not f.get("firstbg"):
                    bad.append("background-not-first")
            for bdesc in bad:
                key = "C11:e2e-" + bdesc
                if any(v["key"] == key for v in violations):
                    continue
                rp = vlib.save_replay(ctx, "e2e_hdr_%d" % ri, dict(family="files", property="C11", clause=key, settings=s,
                                      model=run["model"], file=f))
                violations.append(dict(key=key, replay=rp, what="run %d file %s" % (ri, f["name"])))
    return violations


def c05_wiring(ctx, binp):
    """main.go wiring of the throttle with the real clock: activate=true with a tiny bucket and a refill that cannot
    matter in the run's duration => frames stored in motion files <= bucket-size*fps (+2), a 'throttle' event is queued
    on the bus, and no recording restarts (a restart needs (min+preview)*fps tokens, none are earned)."""
    rng = ctx.sub_rng("fam_e2e.2")
    out = []
    for k in range(2 if ctx.tier == "quick" else 10):
        fps = rng.choice([2, 3, 9])
        settings = dict(min=1, max=rng.choice([3, 5]), preview=rng.choice([0, 1]), const=False, throttle=True,
                        bucket="%ds" % rng.choice([2, 3]), refill="24h",
                        motion=dict(FIXED_MOTION, **{"trigger-frames": 1}))
        bucket_frames = int(settings["bucket"][:-1]) * fps
        w, h = 4, 3
        fsize = 640 + 2 * w * h
        payload, pace = bytearray(), []
        n = 6 * bucket_frames + 20
        for i in range(1, n + 1):
            payload += lepton_frame(w, h, i, 300 if i % 2 else 200, 60000 + i * 100)     # continuous motion
            pace.append(len(payload))
        conn = dict(header=dict(ResX=w, ResY=h, FPS=fps, FrameSize=fsize, Model="lepton3", Brand="flir", CameraSerial=1, Firmware="1.0.0"),
                    payload=base64.b64encode(bytes(payload)).decode(), cuts=[], settle_ms=50, pace_at=pace, pace_ms=3)
        evs = run_e2e(ctx, binp, dict(config=toml(settings), prefiles=[], conns=[conn]), "c05_%d" % k)
        last = [e for e in evs if e["ev"] == "e2e-conn-done"][-1]
        end = [e for e in evs if e["ev"] == "e2e-end"][-1]
        stored = sum(len(f["ids"]) for f in last["files"] if f["kind"] == "final")
        events = sum(1 for c in end["bus"] if c["member"] == "Queue" and "throttle" in c["args"] or
                     (c["member"] == "Queue" and c["dest"] == "org.cacophony.Events"))
        out.append(dict(fps=fps, settings=settings, bucket_frames=bucket_frames, frames_sent=n, frames_stored=stored,
                        throttle_events=events, files=[f["ids"] for f in last["files"] if f["kind"] == "final"]))
    return out


def thr_probe_runs(ctx, binp):
    """C05/C06 through the unmodified runMain: throttle on with a refill period that cannot earn a frame within the run
    (24h), small buckets, min/preview/max/trigger-frames in unusual but valid combinations (min+preview > max,
    trigger-frames >= fps), several motion bursts; every stream is played against a sweep of bucket sizes so that the
    budget left at some start request falls on either side of one minimum-length recording.  SystemTrace.tla composes
    Processor.tla with the no-refill throttle and predicts the files; the budget and full-clip clauses are evaluated
    directly on the files."""
    import random
    rng = ctx.sub_rng("fam_e2e.3")
    runs = []
    for k in range(2 if ctx.tier == "quick" else 16):
        fps = rng.choice([1, 2, 3]) if k % 4 else 9
        preview = rng.choice([1, 2]) if k % 2 == 0 else rng.choice([0, 1])
        mn = rng.choice([1, 1, 2]) if fps < 9 else 1
        mx = mn if k % 2 == 0 else rng.choice([mn + 1, mn + 2])           # even: min+preview > max
        trig = rng.choice([0, 1, 2]) if k % 2 == 0 else rng.choice([fps, fps + 1, 2 * fps])   # odd: trigger-frames >= fps
        if preview * fps + trig < 1:
            trig = 1
        minlen = (mn + preview) * fps
        model = rng.choice(["lepton3", "boson"])
        sseed = rng.randrange(1 << 30)
        # d = -1: a bucket smaller than one minimum-length recording (nothing may ever be recorded)
        for bucket_s in [mn + preview + d for d in ((-1, 1, 2, 3) if ctx.tier == "quick" else (-1, 0, 1, 2, 3, 4, 5)) if mn + preview + d >= 1]:
            settings = dict(min=mn, max=mx, preview=preview, const=(k % 2 == 1), throttle=True, bucket="%ds" % bucket_s, refill="24h",
                            motion=dict(FIXED_MOTION, **{"trigger-frames": trig}), device="dev", deviceid=7)
            w, h = 4, 3
            conn, ev, fid = build_conn(random.Random(sseed), settings, w, h, fps, model, 1, 90 + 12 * fps, with_clear=(k % 3 == 0), with_bad=False)
            ev[0]["ThrCap"], ev[0]["ThrMin"] = bucket_s * fps, minlen
            scen = dict(config=toml(settings), prefiles=[], conns=[conn])
            try:
                evs = run_e2e(ctx, binp, scen, "thr_%d_%d" % (k, bucket_s))
            except DaemonCrash as dc:
                runs.append(dict(kind="crash", settings=settings, fps=fps, model=model, msg=dc.msg, result=dict(files=[], constant=[])))
                continue
            last = [e for e in evs if e["ev"] == "e2e-conn-done"][-1]
            runs.append(dict(kind="predict", settings=settings, fps=fps, model=model, model_events=ev, result=last, scen=scen,
                             expected_motion={}))
    return runs


def thr_refill_runs(ctx, binp):
    """C05 with the real clock: continuous motion for several real seconds with a short refill period.  One-sided:
    frames stored <= bucket + (min+preview)*fps/min-refill * elapsed * 1.01 + 2, elapsed measured by the driver from
    dialling the frame socket to the end of the stream (an upper bound of the throttle's lifetime)."""
    rng = ctx.sub_rng("fam_e2e.4")
    out = []
    for k in range(2 if ctx.tier == "quick" else 8):
        fps = rng.choice([3, 9])
        mn, preview = 1, rng.choice([0, 1])
        trig = [fps, 1, 2 * fps, 2][k % 4]
        bucket_s, refill_s = mn + preview + rng.choice([2, 3]), rng.choice([1, 2])    # room for more than one minimum-length recording
        if k == 0:
            fps, refill_s, trig = 9, 1, 9       # trigger-frames = fps with a fast refill: the earned budget dominates the bucket
        settings = dict(min=mn, max=rng.choice([mn, mn + 3]), preview=preview, const=(k % 2 == 0), throttle=True, bucket="%ds" % bucket_s,
                        refill="%ds" % refill_s, motion=dict(FIXED_MOTION, **{"trigger-frames": trig}))
        w, h = 4, 3
        fsize = 640 + 2 * w * h
        n = 450 if k == 0 else 260
        payload, pace = bytearray(), []
        for i in range(1, n + 1):
            payload += lepton_frame(w, h, i, 300 if i % 2 else 200, 60000 + i * 100)     # continuous motion
            pace.append(len(payload))
        conn = dict(header=dict(ResX=w, ResY=h, FPS=fps, FrameSize=fsize, Model="lepton3", Brand="flir", CameraSerial=1, Firmware="1.0.0"),
                    payload=base64.b64encode(bytes(payload)).decode(), cuts=[], settle_ms=50, pace_at=pace, pace_ms=15)
        evs = run_e2e(ctx, binp, dict(config=toml(settings), prefiles=[], conns=[conn]), "thrrefill_%d" % k)
        last = [e for e in evs if e["ev"] == "e2e-conn-done"][-1]
        elapsed = last["stream_ms"] / 1000.0      # dial .. all frames processed and settled: the throttle's whole life
        stored = sum(len(f["ids"]) for f in last["files"] if f["kind"] == "final")
        rate = (mn + preview) * fps / refill_s
        out.append(dict(fps=fps, settings=settings, bucket_frames=bucket_s * fps, frames_sent=n, frames_stored=stored,
                        elapsed_s=round(elapsed, 2), bound=round(bucket_s * fps + rate * elapsed * 1.01 + 2, 1)))
    return out


def c17_runs(ctx, binp, throttled=False):
    """C17 end to end through runMain: a test recording requested in the middle of a motion recording (and one while
    idle) must give one extra file of 21 consecutive frames each and leave the motion and continuous files exactly as
    predicted (the three recorders are separate objects wired in handleConn)."""
    rng = ctx.sub_rng("fam_e2e.5")
    runs = []
    nk = 2 if ctx.tier == "quick" else 12
    for k in range(nk if throttled else nk + (1 if ctx.tier == "quick" else 3)):
        fps = rng.choice([2, 3])
        settings = dict(min=rng.choice([1, 2]), max=rng.choice([20, 30]), preview=1, const=(k % 2 == 0), throttle=False,
                        motion=dict(FIXED_MOTION, **{"trigger-frames": rng.choice([1, 2])}), device="dev", deviceid=7)
        lowdisk = k >= nk
        if throttled:
            # the throttle as handleConn wires it, with a bucket that the run cannot drain (files as without it)
            settings.update(throttle=True, bucket="10m", refill="24h")
        if lowdisk:
            # min-disk-space-mb far beyond what the disk has free: no motion recording may start (C04), but the gate
            # belongs to motion recordings only - a requested test recording is still made, 21 frames
            settings["mindisk"] = 10 ** 9
        w, h = 4, 3
        fsize = 640 + 2 * w * h
        trig = settings["motion"]["trigger-frames"]
        ev = [dict(ev="conn", N=settings["preview"] * fps + trig, TrigF=trig, MinF=settings["min"] * fps, MaxF=settings["max"] * fps,
                   ConstOn=settings["const"], firstid=1, newrun=True)]
        if throttled:
            ev[0]["ThrCap"], ev[0]["ThrMin"] = 600 * fps, (settings["min"] + settings["preview"]) * fps
        elif lowdisk:
            ev[0]["WinOpen"] = False
        payload, pace = bytearray(), []
        # the tail must hold the idle request (min-secs*fps + 6 frames after the motion ends) and its 21 frames
        n_idle, n_motion, n_tail = rng.randint(4, 8), rng.randint(34, 44), settings["min"] * fps + 6 + 21 + rng.randint(3, 9)
        hot, fid = False, 1
        for i in range(n_idle + n_motion + n_tail):
            motion = n_idle <= i < n_idle + n_motion
            if motion:
                hot = not hot
            payload += lepton_frame(w, h, fid, 300 if hot else 200, 60000 + fid * 100)
            pace.append(len(payload))
            ev.append(dict(ev="frame", id=fid, motion=motion))
            fid += 1
        req_at = [n_idle + rng.randint(6, 10)]                       # inside the motion recording
        if k % 2 == 1:
            req_at.append(n_idle + n_motion + settings["min"] * fps + 6)   # long after it, while idle (non-overlapping: > 21 frames later)
        fast = (k % 4 == 3) or (ctx.tier == "quick" and k == 1)
        if fast:
            # two non-overlapping requests only 24 frames apart, frames delivered much faster than real time (a test
            # recording is 21 frames, however little wall-clock time they take)
            req_at = [req_at[0], req_at[0] + 24]
        conn = dict(header=dict(ResX=w, ResY=h, FPS=fps, FrameSize=fsize, Model="lepton3", Brand="flir", CameraSerial=2, Firmware="1.0.0"),
                    payload=base64.b64encode(bytes(payload)).decode(), cuts=[], settle_ms=60, pace_at=pace, pace_ms=(1 if fast else 5),
                    dbus=[dict(at_byte=fsize * a, member="TakeTestRecording") for a in req_at])
        # service calls that change no file keep arriving during the whole motion recording, each on its own goroutine
        # as godbus dispatches them: every frame must still be processed (recordings exactly as predicted)
        conn["dbus"] += [dict(at_byte=fsize * (n_idle + 1), member="TakeSnapshot", count=(400 if fast else 2000), parallel=4, gap_us=20, intarg=-1),
                         dict(at_byte=fsize * (n_idle + 2), member="CameraInfo", count=(200 if fast else 1000), parallel=2, gap_us=30)]
        scen = dict(config=toml(settings), prefiles=[], conns=[conn])
        try:
            evs = run_e2e(ctx, binp, scen, "c17%s_%d" % ("t" if throttled else "", k))
        except DaemonCrash as dc:
            runs.append(dict(kind="crash", settings=settings, fps=fps, model="lepton3", msg=dc.msg, result=dict(files=[], constant=[])))
            continue
        last = [e for e in evs if e["ev"] == "e2e-conn-done"][-1]
        runs.append(dict(kind="predict", settings=settings, fps=fps, model="lepton3", model_events=ev, result=last, scen=scen,
                         ntest=len(req_at), expected_motion={}))
    return runs


def c04_window_runs(ctx, binp):
    """C04's window clause through config.toml and runMain: a recording window an hour around the current time
    (recordings as without a window) and one that opens in an hour (motion, but nothing may be recorded); the
    continuous recorder is not gated by the window."""
    import time
    rng = ctx.sub_rng("fam_e2e.6")
    runs = []
    for k in ([0, 1, 3] if ctx.tier == "quick" else range(12)):
        settings, fps = gen_settings(rng)
        now = time.time()
        hm = lambda t: time.strftime("%H:%M", time.localtime(t))
        is_open = (k % 2 == 0)
        if k % 4 == 3:
            # the other gate of C04: min-disk-space-mb far beyond what any disk has free (motion, nothing recorded)
            settings["mindisk"] = 10 ** 9
        else:
            settings["window"] = (hm(now - 3600), hm(now + 3600)) if is_open else (hm(now + 3600), hm(now + 7200))
            if is_open:
                settings["mindisk"] = 1      # and a requirement that is certainly met
        w, h = 4, 3
        model = rng.choice(["lepton3", "boson"])
        conn, ev, fid = build_conn(rng, settings, w, h, fps, model, 1, rng.randint(40, 80), with_clear=False, with_bad=False, sustain=0.5)
        ev[0]["WinOpen"] = is_open
        scen = dict(config=toml(settings), prefiles=[], conns=[conn])
        try:
            evs = run_e2e(ctx, binp, scen, "c04w_%d" % k)
        except DaemonCrash as dc:
            runs.append(dict(kind="crash", settings=settings, fps=fps, model=model, msg=dc.msg, result=dict(files=[], constant=[])))
            continue
        last = [e for e in evs if e["ev"] == "e2e-conn-done"][-1]
        runs.append(dict(kind="predict", settings=settings, fps=fps, model=model, model_events=ev, result=last, scen=scen,
                         expected_motion={}))
    return runs


def cfgwatch_runs(ctx, binp):
    """Beyond the listed properties (ConfigWatch.tla): config.toml is rewritten while runMain runs.  Returns the trace
    for ConfigWatchTrace.tla, or None when the file watcher does not work in this sandbox."""
    rng = ctx.sub_rng("fam_e2e.7")
    trace = []
    base = dict(min=1, max=2, preview=1, const=False, throttle=False, motion=dict(FIXED_MOTION, **{"trigger-frames": 1}), device="dev", deviceid=7)
    def variant(r, m, valid):
        s2 = json.loads(json.dumps(base))
        s2["min"] = 1 + (r % 2); s2["device"] = "dev%d" % (r // 2)          # r: everything but the motion section
        s2["motion"]["delta-thresh"] = 10 + m                                # m: the motion section
        txt = toml(s2)
        return txt if valid else txt.replace("min-secs = %d" % s2["min"], "min-secs = 99")      # max-secs < min-secs: rejected
    for k in range(2 if ctx.tier == "quick" else 8):
        r0, m0 = rng.randrange(4), rng.randrange(3)
        writes = []
        for j in range(rng.randint(1, 3)):           # changes the daemon must survive
            kind = rng.choice(["same", "motion", "invalid", "invalid-relevant"])
            writes.append(dict(same=(r0, m0, True), motion=(r0, (m0 + 1 + j) % 3, True), invalid=(r0, m0, False))
                          .get(kind, ((r0 + 1) % 4, m0, False)))
        writes.append(((r0 + rng.randint(1, 3)) % 4, rng.randrange(3), True))      # and one that must make it exit
        conn, ev, fid = build_conn(rng, base, 4, 3, 3, "lepton3", 1, 8, with_clear=False)
        scen = dict(config=variant(r0, m0, True), prefiles=[], conns=[conn],
                    rewrites=[dict(toml=variant(r, m, v), wait_ms=700) for (r, m, v) in writes])
        trace.append(dict(ev="cw-start", r=r0, m=m0))
        try:
            evs = run_e2e(ctx, binp, scen, "cw_%d" % k)
            exited = False
        except DaemonExit as de:
            evs, exited = de.events, True
        rw = [e for e in evs if e["ev"] == "e2e-rewrite"]
        if any(e["nochange"] + e["errors"] == 0 for e in rw):
            # a rewrite the daemon survived without logging anything: its watcher did not see the event in time
            return None, "the daemon's file watcher did not report a rewrite within 700 ms (inotify unavailable or slow)"
        for j, (r, m, v) in enumerate(writes):
            trace.append(dict(ev="cw-write", r=r, m=m, valid=v))
            trace.append(dict(ev="cw-handle", exited=(exited and j == len(rw))))
            if exited and j == len(rw):
                break
    return trace, None


def c03_disconnect_runs(ctx, binp):
    """C03 at the daemon's edges: a camera connection that ends in the middle of a motion recording.  That recording
    reached neither limit, so nothing may be published for it; the next connection starts afresh."""
    rng = ctx.sub_rng("fam_e2e.8")
    runs = []
    for k in range(2 if ctx.tier == "quick" else 10):
        settings, fps = gen_settings(rng)
        settings["min"], settings["max"] = max(1, settings["min"]), max(2, settings["max"])    # long enough to be cut by the disconnect
        settings["const"] = (k % 2 == 1)
        w, h = 4, 3
        model = rng.choice(["lepton3", "boson"])
        conns, mev, fid = [], [], 1
        for c in range(2):
            conn, ev, fid = build_conn(rng, settings, w, h, fps, model, fid, rng.randint(25, 50), with_clear=False, with_bad=False,
                                       end_in_motion=True)
            conns.append(conn)
            mev += ev
        scen = dict(config=toml(settings), prefiles=[], conns=conns)
        try:
            evs = run_e2e(ctx, binp, scen, "c03d_%d" % k)
        except DaemonCrash as dc:
            runs.append(dict(kind="crash", settings=settings, fps=fps, model=model, msg=dc.msg, result=dict(files=[], constant=[])))
            continue
        last = [e for e in evs if e["ev"] == "e2e-conn-done"][-1]
        runs.append(dict(kind="predict", settings=settings, fps=fps, model=model, model_events=mev, result=last, scen=scen,
                         expected_motion={}))
    return runs


def c17_periodic_run(ctx, binp):
    """Beyond the listed request path: with no recording window the daemon makes a test recording of its own one minute
    after the first camera connection (snapshotRecordingTriggers -> newSnapshotRecording).  One slow stream of ~75 s;
    SystemTrace.tla expects exactly one extra file of 21 consecutive frames next to the predicted motion files."""
    rng = ctx.sub_rng("fam_e2e.9")
    fps = 3
    settings = dict(min=1, max=5, preview=1, const=False, throttle=False, motion=dict(FIXED_MOTION, **{"trigger-frames": 2}), device="dev", deviceid=7)
    w, h = 4, 3
    fsize = 640 + 2 * w * h
    ev = [dict(ev="conn", N=settings["preview"] * fps + 2, TrigF=2, MinF=settings["min"] * fps, MaxF=settings["max"] * fps, ConstOn=False, firstid=1, newrun=True)]
    payload, pace, hot = bytearray(), [], False
    for fid in range(1, 301):
        motion = (fid % 40) in (5, 6, 7, 8)
        if motion:
            hot = not hot
        payload += lepton_frame(w, h, fid, 300 if hot else 200, 60000 + fid * 100)
        pace.append(len(payload))
        ev.append(dict(ev="frame", id=fid, motion=motion))
    conn = dict(header=dict(ResX=w, ResY=h, FPS=fps, FrameSize=fsize, Model="lepton3", Brand="flir", CameraSerial=2, Firmware="1.0.0"),
                payload=base64.b64encode(bytes(payload)).decode(), cuts=[], settle_ms=60, pace_at=pace, pace_ms=250)
    scen = dict(config=toml(settings), prefiles=[], conns=[conn])
    try:
        evs = run_e2e(ctx, binp, scen, "c17_periodic")
    except DaemonCrash as dc:
        return [dict(kind="crash", settings=settings, fps=fps, model="lepton3", msg=dc.msg, result=dict(files=[], constant=[]))]
    last = [e for e in evs if e["ev"] == "e2e-conn-done"][-1]
    return [dict(kind="predict", settings=settings, fps=fps, model="lepton3", model_events=ev, result=last, scen=scen, ntest=1, expected_motion={})]


def c17_window_triggers_run(ctx, binp):
    """Beyond the listed request path: the windowed branch of snapshotRecordingTriggers.  With a recording window that is
    open when the daemon starts it makes a 'power on' test recording one minute after the first camera connection and an
    'end of window' one two minutes before the window closes.  The window is chosen to close 200..260 s after the start,
    so both fall into one slow stream; SystemTrace.tla expects exactly two extra files of 21 consecutive frames."""
    import time
    fps = 3
    now = time.time()
    end = (int(now + 200) // 60 + 1) * 60                      # first minute boundary at least 200 s away
    hm = lambda t: time.strftime("%H:%M", time.localtime(t))
    settings = dict(min=1, max=5, preview=1, const=False, throttle=False, motion=dict(FIXED_MOTION, **{"trigger-frames": 2}),
                    device="dev", deviceid=7, window=(hm(now - 3600), hm(end)))
    w, h = 4, 3
    fsize = 640 + 2 * w * h
    ev = [dict(ev="conn", N=settings["preview"] * fps + 2, TrigF=2, MinF=settings["min"] * fps, MaxF=settings["max"] * fps, ConstOn=False,
               firstid=1, newrun=True, WinOpen=True)]
    nframes = int((end - 120 + 15 - now) / 0.25) + 8
    payload, pace, hot = bytearray(), [], False
    for fid in range(1, nframes + 1):
        motion = (fid % 40) in (5, 6, 7, 8)
        if motion:
            hot = not hot
        payload += lepton_frame(w, h, fid, 300 if hot else 200, 60000 + fid * 100)
        pace.append(len(payload))
        ev.append(dict(ev="frame", id=fid, motion=motion))
    conn = dict(header=dict(ResX=w, ResY=h, FPS=fps, FrameSize=fsize, Model="lepton3", Brand="flir", CameraSerial=2, Firmware="1.0.0"),
                payload=base64.b64encode(bytes(payload)).decode(), cuts=[], settle_ms=60, pace_at=pace, pace_ms=250)
    scen = dict(config=toml(settings), prefiles=[], conns=[conn])
    try:
        evs = run_e2e(ctx, binp, scen, "c17_window_triggers")
    except DaemonCrash as dc:
        return [dict(kind="crash", settings=settings, fps=fps, model="lepton3", msg=dc.msg, result=dict(files=[], constant=[]))]
    last = [e for e in evs if e["ev"] == "e2e-conn-done"][-1]
    return [dict(kind="predict", settings=settings, fps=fps, model="lepton3", model_events=ev, result=last, scen=scen, ntest=2, expected_motion={})]


def prune_runs(ctx, binp):
    """Beyond the listed properties (Prune.tla): deleteExcessRecordings on a 4 MB tmpfs mounted for the occasion.
    Returns (events, note); events is None when no file system can be mounted here."""
    rng = ctx.sub_rng("prune")
    mnt = ctx.path("prunefs", "x")[:-2]
    os.makedirs(mnt, exist_ok=True)
    r = subprocess.run(["mount", "-t", "tmpfs", "-o", "size=4m", "tmpfs", mnt], capture_output=True, text=True)
    if r.returncode != 0:
        return None, "no small file system could be mounted (%s)" % (r.stderr.strip()[:120])
    try:
        scen = []
        name = lambda i, ext=".cptv": "202001%02d.000000.000%s" % (i + 1, ext)
        for k in range(12 if ctx.tier == "quick" else 80):
            nf = rng.choice([0, 1, 3, 5, 8])
            sizes = [rng.choice([4, 100, 300, 700]) for _ in range(nf)]
            others = [dict(Name="notes.txt", KB=rng.choice([0, 1500, 2600, 3000, 3300]))] if rng.random() < 0.7 else []
            files = [dict(Name=name(i, rng.choice([".cptv", ".cptv", ".cptv.temp"])), KB=kb) for i, kb in enumerate(sizes)]
            used = sum(f["KB"] for f in files) + sum(o["KB"] for o in others)
            if used > 3900:        # must fit into the file system
                files = files[:1]
            scen.append(dict(Files=files, Others=others))
        inp, outp = ctx.path("run", "prune.json"), ctx.path("run", "prune.ndjson")
        json.dump(dict(scenarios=scen), open(inp, "w"))
        r = subprocess.run([binp, "-test.run", "^TestVerifPrune$"], env=dict(os.environ, VERIF_DIR=mnt, VERIF_SCRIPT=inp, VERIF_OUT=outp),
                           capture_output=True, text=True, timeout=300)
        if r.returncode != 0 or not os.path.exists(outp):
            return None, "prune driver failed: " + (r.stdout + r.stderr)[-300:]
        return vlib.read_ndjson(outp), None
    finally:
        subprocess.run(["umount", mnt], capture_output=True)


def c17_reconnect_runs(ctx, binp):
    """C17 across camera reconnects within one daemon run (and a daemon restart on the same output directory is the
    prefiles case of C10): the continuous recorder is set up anew by every handleConn, its directory already exists
    from the second connection on; every frame of every connection must land in exactly one continuous file."""
    rng = ctx.sub_rng("fam_e2e.10")
    runs = []
    for k in range(2 if ctx.tier == "quick" else 10):
        settings, fps = gen_settings(rng)
        settings["const"] = True
        w, h = rng.choice([(4, 3), (6, 5)])
        model = rng.choice(["lepton3", "boson"])
        conns, mev, fid = [], [], 1
        for c in range(rng.choice([2, 3])):
            nit = rng.randint(25, 60)
            if k % 2 == 1 and c == 0:
                # the first connection ends exactly on a continuous-file boundary (files hold max-secs*fps + 1 frames)
                per = settings["max"] * fps + 1
                nit = per * max(2, 30 // per)
            conn, ev, fid = build_conn(rng, settings, w, h, fps, model, fid, nit, with_clear=(k % 2 == 0), with_bad=False)
            conns.append(conn)
            mev += ev
        scen = dict(config=toml(settings), prefiles=[], conns=conns)
        try:
            evs = run_e2e(ctx, binp, scen, "c17r_%d" % k)
        except DaemonCrash as dc:
            runs.append(dict(kind="crash", settings=settings, fps=fps, model=model, msg=dc.msg, result=dict(files=[], constant=[])))
            continue
        last = [e for e in evs if e["ev"] == "e2e-conn-done"][-1]
        runs.append(dict(kind="predict", settings=settings, fps=fps, model=model, model_events=mev, result=last, scen=scen,
                         expected_motion={}))
    return runs


def many_reconnects_run(ctx, binp):
    """One daemon run with two dozen short camera connections of a camera that announces 8 (quick) or 4 / 16 fps: whatever
    handleConn keeps between connections must not wear out.  Every frame of every connection must be delivered and land
    in a continuous file as predicted (a camera that restarts after every bad frame reconnects just like this)."""
    rng = ctx.sub_rng("fam_e2e.many-reconnects")
    runs = []
    for (fps, nconn) in ([(8, 23)] if ctx.tier == "quick" else [(8, 23), (16, 18), (4, 33)]):
        settings = dict(min=1, max=1, preview=(1 if fps <= 8 else 0), const=True, throttle=False,
                        motion=dict(FIXED_MOTION, **{"trigger-frames": 1}), device="dev", deviceid=7)
        conns, mev, fid = [], [], 1
        for c in range(nconn):
            conn, ev, fid = build_conn(rng, settings, 4, 3, fps, "lepton3", fid, fps + 1 + rng.randint(1, 4), with_clear=False, with_bad=False)
            conns.append(conn)
            mev += ev
        scen = dict(config=toml(settings), prefiles=[], conns=conns)
        try:
            evs = run_e2e(ctx, binp, scen, "reconn%d" % fps)
        except DaemonCrash as dc:
            runs.append(dict(kind="crash", settings=settings, fps=fps, model="lepton3", msg=dc.msg, result=dict(files=[], constant=[]),
                             connections=nconn))
            continue
        last = [e for e in evs if e["ev"] == "e2e-conn-done"][-1]
        runs.append(dict(kind="predict", settings=settings, fps=fps, model="lepton3", model_events=mev, result=last, scen=scen,
                         expected_motion={}, connections=nconn, end=[e for e in evs if e["ev"] == "e2e-end"][-1]))
    return runs


def lifecycle_trace(scen, end):
    """Events for LifecycleTrace.tla from one daemon run: the lifecycle lines runMain printed (e2e-end.lifecycle) and,
    for the k-th 'end' line, the whole frames the harness sent on the k-th connection."""
    sent = []
    for c in scen["conns"]:
        if c.get("header_cut"):
            sent.append(0); continue
        data, fs, pos, n = base64.b64decode(c["payload"]), c["header"]["FrameSize"], 0, 0
        while pos + 5 <= len(data):
            if data[pos:pos + 5] == b"clear":
                pos += 5
            elif pos + fs <= len(data):
                pos += fs; n += 1
            else:
                break
        sent.append(n)
    out, k = [dict(ev="run")], 0
    for tok in end.get("lifecycle") or []:
        if tok.startswith("header:"):
            out.append(dict(ev="header", fps=int(tok[7:])))
        elif tok.startswith("count:"):
            out.append(dict(ev="count", n=int(tok[6:])))
        elif tok == "end":
            out.append(dict(ev="end", sent=sent[k] if k < len(sent) else -1)); k += 1
        else:
            out.append(dict(ev=tok))
    return out


def judge_lifecycle(ctx, runs):
    """Beyond the listed properties: validate the lifecycle lines of e2e runs against Lifecycle.tla.  Returns a dict
    (accepted, events, connections, progress_lines) - a rejection is reported as a NOTE by the caller."""
    tr = []
    for r in runs:
        if r.get("kind") == "predict" and r.get("end") is not None and r.get("scen"):
            tr += lifecycle_trace(r["scen"], r["end"])
    if not tr:
        return dict(accepted=None, events=0)
    tp = ctx.path("run", "lifecycle.ndjson")
    vlib.write_ndjson(tp, tr)
    t = ctx.tlc("lifecycle_trace", "LifecycleTrace",
                mkcfg(init="TInit", next_="TNext", post="Accepted",
                      constants=dict(FpsSet={1}, MaxConn=100000, MaxFrames=10000000, Wrap=1073741824, Compounding=False), deadlock=False),
                workers=1, files=[(tp, "trace.ndjson")], timeout=600, heap="2g", expect_ok=False)
    acc = t.get("distinct", 0) == len(tr) + 1
    return dict(accepted=acc, events=len(tr), rejected_after=(None if acc else t.get("distinct", 1) - 1),
                rejected_event=(None if acc else tr[min(len(tr) - 1, max(0, t.get("distinct", 1) - 1))]),
                connections=sum(1 for e in tr if e["ev"] == "end"), progress_lines=sum(1 for e in tr if e["ev"] == "count"),
                daemon_runs=sum(1 for e in tr if e["ev"] == "run"))


def c13_runs(ctx, binp):
    """C13 at the daemon: bad Lepton / Boson frames inside socket streams; the files must be the predicted ones, every
    bad frame must be reported as a 'bad-thermal-frame' event and answered with a camera restart request."""
    rng = ctx.sub_rng("fam_e2e.11")
    runs = []
    for k in range(3 if ctx.tier == "quick" else 30):
        settings, fps = gen_settings(rng)
        settings["const"] = (k % 2 == 0)
        model = ["lepton3", "boson", "lepton3.5"][k % 3]
        conn, ev, fid = build_conn(rng, settings, 4, 3, fps, model, 1, rng.randint(40, 90), with_clear=True, with_bad=True)
        if k % 3 == 1:
            # a Boson is never power-cycled by the daemon's restart request, so no 'clear' ever follows: several bad frames
            # on one connection without a marker between them, each to be reported
            brng = ctx.sub_rng("fam_e2e.11.boson%d" % k)
            for attempt in range(20):
                conn, ev, fid = build_conn(brng, settings, 4, 3, fps, model, 1, brng.randint(50, 90), with_clear=False, with_bad=True)
                if sum(1 for e in ev if e["ev"] == "bad") >= 3:
                    break
        scen = dict(config=toml(settings), prefiles=[], conns=[conn])
        try:
            evs = run_e2e(ctx, binp, scen, "c13_%d" % k)
        except DaemonCrash as dc:
            runs.append(dict(kind="crash", settings=settings, fps=fps, model=model, msg=dc.msg, result=dict(files=[], constant=[])))
            continue
        last = [e for e in evs if e["ev"] == "e2e-conn-done"][-1]
        runs.append(dict(kind="predict", settings=settings, fps=fps, model=model, model_events=ev, result=last, scen=scen,
                         expected_motion={}, bus=[e for e in evs if e["ev"] == "e2e-end"][-1]["bus"]))
    return runs


def c10_startup(ctx, binp, const=False):
    """C10 through runMain: debris of a crashed run (temp + scratch files, next to a complete recording) is in the output
    directory when the daemon starts; before the first recording is made only the complete recording may be left."""
    rng = ctx.sub_rng("fam_e2e.12")
    settings, fps = gen_settings(rng)
    settings["const"] = const          # the debris in the output directory goes whatever other recorders are configured
    conn, ev, fid = build_conn(rng, settings, 4, 3, fps, "lepton3", 1, 12, with_clear=False)
    pre = ["20200101.000000.000.cptv.temp", "20200101.000000.000.cptv.temp.tmp", "20200102.010101.111.cptv.temp",
           "20200103.020202.222.cptv.temp.tmp"]
    evs = run_e2e(ctx, binp, dict(config=toml(settings), prefiles=pre, conns=[conn]), "c10_startup%d" % int(const))
    st = [e for e in evs if e["ev"] == "e2e-startup"]
    return [dict(name=f["name"], kind=f["kind"], decodes=bool(f.get("decodes", False))) for f in (st[0]["files"] if st else [])], pre
