#!/usr/bin/env python3
"""Regression over the stored seeded changes: apply each seeded/<id>/patch.diff (patch.rebased.diff when present) to a
scratch worktree of the repository and run the check of the property it was written against.
usage: seedsweep.py [prefix ...]      (VERIF_REPO = repository to take the worktree from, default /repo)"""
import glob, json, os, subprocess, sys
V = os.path.dirname(os.path.dirname(os.path.abspath(__file__)))
REPO = os.environ.get("VERIF_REPO", "/repo")
ENV = dict(os.environ, GOFLAGS="-mod=mod", GOPROXY="off", GOSUMDB="off", GOTOOLCHAIN="local", VERIF_SELFVAL_OUT="/tmp/verif-selfval-out")


def sh(cmd, **kw):
    r = subprocess.run(cmd, shell=True, capture_output=True, text=True, **kw)
    return r.returncode, r.stdout + r.stderr


def main():
    pre = sys.argv[1:]
    res = []
    for d in sorted(glob.glob(os.path.join(V, "seeded", "C*"))):
        sid = os.path.basename(d)
        if "discarded" in sid or (pre and not any(sid.startswith(p) for p in pre)):
            continue
        patch = os.path.join(d, "patch.rebased.diff")
        if not os.path.exists(patch):
            patch = os.path.join(d, "patch.diff")
        prop = sid[:3]
        wt = "/tmp/seedsweep/%s" % sid
        sh("git -C %s worktree remove --force %s" % (REPO, wt))
        sh("rm -rf %s" % wt)
        os.makedirs("/tmp/seedsweep", exist_ok=True)
        rc, out = sh("git -C %s worktree add -q --detach %s HEAD" % (REPO, wt))
        try:
            rc, out = sh("git apply %s" % patch, cwd=wt)
            if rc != 0:
                print("%-8s patch does not apply any more" % sid, flush=True)
                res.append((sid, "noapply"))
                continue
            rc, out = sh("go build ./...", cwd=wt, env=ENV)
            if rc != 0:
                print("%-8s does not build" % sid, flush=True)
                res.append((sid, "nobuild"))
                continue
            rc, out = sh("./check %s" % prop, cwd=V, env=dict(ENV, VERIF_REPO=wt))
            lines = [l for l in out.splitlines() if l.startswith(("VIOLATION", "  clause", "INFRA"))]
            print("%-8s %s rc=%d %s" % (sid, prop, rc, " | ".join(x[:110] for x in lines[:2])), flush=True)
            res.append((sid, rc))
        finally:
            sh("git -C %s worktree remove --force %s" % (REPO, wt))
            sh("rm -rf %s" % wt)
    print("not detected:", [r for r in res if r[1] != 1])


if __name__ == "__main__":
    main()
