#!/usr/bin/env python3
"""Entry point:  ./check <property id> [--tier quick|thorough] [--replay <path>]

Environment: VERIF_SEED (int), VERIF_TIER (quick|thorough), VERIF_KEEP=1 keeps scratch.
"""
import argparse
import importlib
import os
import sys
import traceback

sys.path.insert(0, os.path.dirname(os.path.abspath(__file__)))
import vlib  # noqa: E402

FAMILY = {
    "C01": "fam_proc", "C02": "fam_proc", "C03": "fam_proc", "C04": "fam_proc",
    "C12": "fam_proc", "C13": "fam_proc", "C17": "fam_proc",
    "C19": "fam_ring", "C20": "fam_loglim",
    "C05": "fam_throttle", "C06": "fam_throttle",
    "C07": "fam_detect", "C08": "fam_detect", "C09": "fam_detect", "C15": "fam_detect",
    "C10": "fam_files", "C11": "fam_files",
    "C14": "fam_socket", "C16": "fam_snapshot", "C18": "fam_twriter",
}


def main():
    ap = argparse.ArgumentParser()
    ap.add_argument("prop")
    ap.add_argument("--tier", default=os.environ.get("VERIF_TIER") or "quick")
    ap.add_argument("--replay")
    a = ap.parse_args()
    tier = a.tier if a.tier in ("quick", "thorough") else "quick"
    try:
        seed = int(os.environ.get("VERIF_SEED", "1"))
    except ValueError:
        seed = 1
    if a.prop not in FAMILY:
        print("unknown property", a.prop)
        return 2
    ctx = vlib.Ctx(a.prop, tier, seed)
    try:
        mod = importlib.import_module(FAMILY[a.prop])
        if a.replay:
            rc = mod.replay(ctx, a.replay)
        else:
            rc = mod.run(ctx)
        return rc
    except vlib.Infra as e:
        print("INFRA-ERROR property=%s: %s" % (a.prop, e))
        return 2
    except Exception as e:
        if type(e).__name__ == "DaemonCrash":
            # the daemon itself panicked on a valid scenario in a place where the family does not handle it specially:
            # that is behaviour of the code under test
            rp = vlib.save_replay(ctx, "daemon_crashed", dict(property=a.prop, clause=a.prop + ":daemon-crashed", panic=e.msg, scenario=e.scen))
            print("VIOLATION property=%s replay=%s" % (a.prop, rp))
            print("  clause: %s:daemon-crashed   %s" % (a.prop, e.msg[-300:].replace("\n", " | ")))
            return 1
        traceback.print_exc()
        print("INFRA-ERROR property=%s: internal error in the checker" % a.prop)
        return 2
    finally:
        ctx.cleanup()


if __name__ == "__main__":
    sys.exit(main())
