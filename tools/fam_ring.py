"""Family "ring": C19 — motion/frameloop.go, spec FrameLoop.tla."""
import json
import os
import subprocess

import vlib
from vlib import cfg as mkcfg

ASSUME = [
    "frames are tagged by a sequence number in two pixels; tag 0 = slot never written",
    "queries are judged when the current slot has been filled (the way the processor and the detector use the ring); "
    "'recent' is judged while the previous frame is still held (capacity >= 2, or capacity 1 before the slot is refilled)",
    "a Move is only issued after the current slot was filled (API usage); Reset / SetAsOldest at any time",
    "concurrent mode: judged only while FrameLoop carries a lock of its own (a sync.* field); the producer writes nothing but "
    "the slot Current() returned, as the frame loop does; capacity >= 2; sampled Go schedules, not all interleavings",
]


def gen_ops(rng, n):
    ops, written = [], False
    for _ in range(n):
        r = rng.random()
        if r < 0.42 or (not written and r < 0.8):
            ops.append("write"); written = True
        elif r < 0.80 and written:
            ops.append("move"); written = False
        elif r < 0.93:
            ops.append("mark")
        else:
            ops.append("reset"); written = False
    return ops


def drive(ctx, scripts, name="trace"):
    drv = ctx.go_build("./zzverif/ringdrv", "ringdrv")
    inp = ctx.path("run", name + ".json")
    json.dump(dict(scripts=scripts), open(inp, "w"))
    outp = ctx.path("run", name + ".ndjson")
    with open(outp, "w") as fo:
        r = subprocess.run([drv, inp], stdout=fo, stderr=subprocess.PIPE, text=True, timeout=600)
    if r.returncode != 0:
        raise vlib.Infra("ringdrv failed: " + r.stderr[-2000:])
    return outp


def judge(ctx, trace, maxcap, name="mon"):
    nev = sum(1 for _ in open(trace))
    r = ctx.tlc(name, "RingTrace", mkcfg(init="TInit", next_="TNext", post="Consumed",
                                         constants=dict(MaxCap=maxcap, MaxTag=10 ** 6)),
                workers=1, files=[(trace, "trace.ndjson")], timeout=1800, heap="4g")
    if r.get("distinct", 0) != nev + 1:
        raise vlib.Infra("RingTrace did not consume the trace (%s of %d)\n%s" % (r.get("distinct"), nev, vlib.tail_err(r["out"])))
    return vlib.parse_viol(r["out"]), nev


def run(ctx):
    tier, rng = ctx.tier, ctx.sub_rng("fam_ring.1")
    mc, mt = (5, 11) if tier == "quick" else (6, 16)
    d = ctx.tlc("design", "FrameLoop",
                mkcfg(constants=dict(MaxCap=mc, MaxTag=mt),
                      invariants=["HistoryOK", "OldestOK", "RecentOK", "CurrentOK", "Bounded", "TypeOK"]),
                timeout=1800, heap="6g")
    if not d["ok"]:
        raise vlib.Infra("FrameLoop.tla design check failed:\n" + vlib.tail_err(d["out"]))
    # the ring under concurrent use (its own mutex): every interleaving of a producer that fills Current() and moves
    # with CopyRecent calls, copy made under the lock (the pinned code) - and the self-test without
    conc_design = []
    for (cap, mtag, calls) in ([(2, 5, 3), (3, 5, 2)] if tier == "quick" else [(2, 7, 4), (3, 7, 3), (4, 8, 3)]):
        consts = dict(Cap=cap, MaxTag=mtag, Calls=calls, LockedCopy=True)
        dc = ctx.tlc("conc_design_%d" % cap, "RingConc",
                     mkcfg(spec="Spec", constants=consts, invariants=["TypeOK", "WholeFrame", "RecentAtSomeMoment", "Mutex"],
                           properties=["Terminates"], deadlock=False), timeout=900, heap="4g")
        if not dc["ok"]:
            raise vlib.Infra("RingConc.tla (copy under the lock) design check failed:\n" + vlib.tail_err(dc["out"]))
        conc_design.append(dict(cap=cap, MaxTag=mtag, Calls=calls, distinct=dc.get("distinct")))
    du = ctx.tlc("conc_design_unlocked", "RingConc",
                 mkcfg(spec="Spec", constants=dict(Cap=2, MaxTag=5, Calls=3, LockedCopy=False), invariants=["WholeFrame"], deadlock=False),
                 timeout=300, heap="2g")
    ctx.notes.append("self-test: RingConc.tla with the copy made after the lock is released violates WholeFrame: %s" % (not du["ok"]))
    scripts, graphs = [], []
    caps = [1, 2, 3] if tier == "quick" else [1, 2, 3, 4, 5]
    for c in caps:
        mtag = 2 * c + 3
        r = ctx.tlc("replay%d" % c, "RingReplay",
                    mkcfg(init="RInit", next_="RNext", constants=dict(MaxCap=c, MaxTag=mtag, CCap=c)),
                    args=["-dump", "dot,actionlabels", "graph"], timeout=600, heap="4g", expect_ok=True)
        inits, nodes, edges = vlib.parse_dot(os.path.join(r["dir"], "graph.dot"))
        paths, ne = vlib.transition_cover(inits, nodes, edges, maxlen=60, rng=ctx.sub_rng("ring.cover"))
        for p in paths:
            scripts.append(dict(cap=c, ops=[nodes[x]["a"] for x in p if nodes.get(x)]))
        graphs.append(dict(cap=c, states=r.get("distinct"), edges=ne, scripts=len(paths)))
    ncover = len(scripts)
    nrand = 300 if tier == "quick" else 4000
    for i in range(nrand):
        cap = rng.choice([1, 1, 2, 2, 3, 4, 5, 7, 8, 16, 19, 64])
        scripts.append(dict(cap=cap, ops=gen_ops(rng, rng.randint(10, 60 if tier == "quick" else 250))))
    # concurrent use under the ring's own mutex: CopyRecent against a producer that fills Current() and moves on
    nconc = 0
    for cap in ([2, 3] if tier == "quick" else [2, 2, 3, 4, 8]):
        for side in ([64, 256] if tier == "quick" else [16, 64, 256, 512]):
            scripts.append(dict(cap=cap, ops=[], conc=(3000 if tier == "quick" else 20000), side=side)); nconc += 1
    trace = drive(ctx, scripts)
    events = vlib.read_ndjson(trace)
    viol, nev = judge(ctx, trace, 64)
    owner, cur = [], -1
    starts = {}
    for i, e in enumerate(events):
        if e["ev"] == "new":
            cur = e["script"]; starts[cur] = i
        owner.append(cur)
    violations, drift = [], []
    seen = set()
    for (line, tags) in viol:
        for t in tags:
            si = owner[line - 1]
            if t.startswith("DRIFT"):
                drift.append((si, t)); continue
            if t in seen:
                continue
            seen.add(t)
            rp = vlib.save_replay(ctx, t.replace(":", "_"), dict(family="ring", property="C19", clause=t,
                                  script=scripts[si], event=line - 1 - starts[si], observed=events[line - 1]))
            violations.append(dict(key=t, replay=rp, what="script %d cap %d" % (si, scripts[si]["cap"])))
    if drift and not violations:
        print("DRIFT: code-shaped FrameLoop model disagrees with the code at %d events (not a verdict)" % len(drift))
        ctx.notes.append("drift: %s" % drift[:5])
    marks = sum(1 for e in events if e["ev"] == "mark")
    resets = sum(1 for e in events if e["ev"] == "reset")
    wraps = sum(1 for s in scripts if s["ops"].count("move") > s["cap"])
    distinct = len({json.dumps(s) for s in scripts if "mark" in s["ops"] and s["ops"].count("move") >= 1})
    coverage = dict(states=d.get("distinct", 0), transitions=d.get("generated", 0),
                    traces_validated_against_impl=len(scripts), samples=[dict(script=scripts[0], trace=events[:6])],
                    exhaustive=True, design=dict(MaxCap=mc, MaxTag=mt), graphs=graphs, cover_scripts=ncover,
                    random_scripts=nrand, concurrent_design=conc_design, concurrent_scripts=nconc,
                    concurrent_copyrecent_calls=sum(e.get("calls", 0) for e in events if e["ev"] == "conc"), events_judged=nev, marks=marks, resets=resets, scripts_that_wrap=wraps,
                    evaluations=len(scripts), distinct_nontrivial=distinct,
                    rule="transition cover of RingReplay graphs (cap 1..%d) + seeded random op sequences (cap up to 64); "
                         "non-trivial = contains a set-as-oldest and at least one move; distinct by (cap, ops)" % caps[-1],
                    drift_events=len(drift))
    return vlib.finish(ctx, violations, coverage, ASSUME)


def replay(ctx, path):
    rp = json.load(open(path))
    trace = drive(ctx, [rp["script"]], "replay")
    viol, _ = judge(ctx, trace, 64, "replaymon")
    tags = sorted({t for (_, ts) in viol for t in ts if t.startswith("C19:")})
    if tags:
        print("VIOLATION property=C19 replay=%s" % path)
        print("  clauses:", ", ".join(tags))
        return 1
    print("replay: no clause fired")
    return 0
