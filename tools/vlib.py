"""Common machinery for the /verif checks: scratch management, building the
harness against /repo's working tree, running TLC (exhaustive, graph dump,
simulate, trace validation), evidence and verdict output.

Exit codes of a check:  0 = property held on everything explored
                        1 = VIOLATION (monitor fired on a trace of the real code)
                        2 = infrastructure problem / model drift (never a verdict)
"""
import json
import os
import random
import re
import shutil
import subprocess
import sys
import tempfile
import time

VERIF = os.path.dirname(os.path.dirname(os.path.abspath(__file__)))
REPO = os.environ.get("VERIF_REPO", "/repo")
SPEC = os.path.join(VERIF, "spec")
HARNESS = os.path.join(VERIF, "harness")
JAR = "/opt/veriftools/tla/tla2tools.jar:/opt/veriftools/tla/CommunityModules-deps.jar"
NCPU = os.cpu_count() or 4

GOENV = dict(GOFLAGS="-mod=mod", GOPROXY="off", GOSUMDB="off", GOTOOLCHAIN="local",
             CGO_ENABLED=os.environ.get("CGO_ENABLED", "1"))


class Infra(Exception):
    """Infrastructure failure: exit 2, never a verdict."""


def log(*a):
    print(*a, file=sys.stderr, flush=True)


class Ctx:
    def __init__(self, prop, tier, seed):
        self.prop, self.tier, self.seed = prop, tier, seed
        base = os.environ.get("VERIF_SCRATCH", tempfile.gettempdir())
        self.scratch = tempfile.mkdtemp(prefix="verif-%s-" % prop, dir=base)
        # everything the drivers and tools create as temporary files lives under the scratch directory and goes with it
        os.makedirs(os.path.join(self.scratch, "tmp"), exist_ok=True)
        os.environ["TMPDIR"] = os.path.join(self.scratch, "tmp")
        self.t0 = time.time()
        self.rng = random.Random(seed)
        self._subs = {}
        self.repo = None
        self.notes = []
        self.tlc_runs = []
        self.keep = bool(os.environ.get("VERIF_KEEP"))

    def sub_rng(self, name):
        """an independent, reproducible random stream per use: what one generator draws must not depend on how many
        numbers another one consumed (the order in which TLC dumps a state graph differs from run to run)"""
        if name not in self._subs:
            self._subs[name] = random.Random("%s:%s:%s:%s" % (self.seed, self.prop, self.tier, name))
        return self._subs[name]

    # ---------------------------------------------------------------- scratch
    def path(self, *p):
        d = os.path.join(self.scratch, *p)
        os.makedirs(os.path.dirname(d), exist_ok=True)
        return d

    def cleanup(self):
        if self.keep:
            log("scratch kept:", self.scratch)
            return
        shutil.rmtree(self.scratch, ignore_errors=True)

    # ------------------------------------------------------------ repo + build
    def repo_copy(self):
        """Scratch copy of /repo's *working tree* (sources only) with the harness
        packages dropped in; built with -tags verif."""
        if self.repo:
            return self.repo
        dst = self.path("repo", "x")[:-2]
        run(["rsync", "-a", "--delete", "--exclude", ".git", "--exclude", "test_data",
             "--exclude", "*_test.go", "--exclude", "_release", REPO + "/", dst + "/"])
        # external drivers: /verif/harness/ext/<name>  ->  <repo>/zzverif/<name>
        ext = os.path.join(HARNESS, "ext")
        if os.path.isdir(ext):
            run(["rsync", "-a", ext + "/", os.path.join(dst, "zzverif") + "/"])
        # in-package drivers: /verif/harness/inpkg/<pkg path>/*.go -> <repo>/<pkg path>/
        inp = os.path.join(HARNESS, "inpkg")
        if os.path.isdir(inp):
            run(["rsync", "-a", inp + "/", dst + "/"])
        self.repo = dst
        return dst

    def goenv(self):
        e = dict(os.environ)
        e.update(GOENV)
        return e

    def go_build(self, pkg, name, race=False):
        repo = self.repo_copy()
        out = self.path("bin", name)
        cmd = ["go", "build", "-tags", "verif", "-o", out]
        if race:
            cmd.append("-race")
        cmd.append(pkg)
        r = subprocess.run(cmd, cwd=repo, env=self.goenv(), capture_output=True, text=True)
        if r.returncode != 0:
            raise Infra("go build %s failed:\n%s" % (pkg, r.stderr[-4000:]))
        return out

    def go_test_build(self, pkg, name, race=False):
        """Compile the in-package test driver of pkg into a binary."""
        repo = self.repo_copy()
        out = self.path("bin", name)
        cmd = ["go", "test", "-c", "-vet=off", "-tags", "verif", "-o", out]
        if race:
            cmd.append("-race")
        cmd.append(pkg)
        r = subprocess.run(cmd, cwd=repo, env=self.goenv(), capture_output=True, text=True)
        if r.returncode != 0:
            raise Infra("go test -c %s failed:\n%s" % (pkg, r.stderr[-4000:]))
        return out

    # -------------------------------------------------------------------- TLC
    def tlc_dir(self, name, modules, extra_files=()):
        d = self.path("tla", name, "x")[:-2]
        os.makedirs(d, exist_ok=True)
        for m in os.listdir(SPEC):
            if m.endswith(".tla"):
                shutil.copy(os.path.join(SPEC, m), d)
        for src, dstname in extra_files:
            shutil.copy(src, os.path.join(d, dstname))
        return d

    def tlc(self, name, module, cfg_text, files=(), workers=None, args=(), timeout=600,
            heap=None, deque=False, expect_ok=False):
        """Run TLC on spec/<module>.tla with the given cfg text.  files: (src, name)
        copied next to the module (e.g. trace.ndjson).  Returns a dict."""
        d = self.tlc_dir(name, None, files)
        with open(os.path.join(d, module + ".cfg"), "w") as f:
            f.write(cfg_text)
        w = str(workers or NCPU)
        jtmp = self.path("jtmp", "x")[:-2]       # TLC unpacks its standard modules into java.io.tmpdir and leaves them there
        os.makedirs(jtmp, exist_ok=True)
        java = ["java", "-XX:+UseParallelGC", "-Xss64m", "-Djava.io.tmpdir=" + jtmp]
        if heap:
            java.append("-Xmx" + heap)
        if deque:
            java.append("-Dtlc2.tool.queue.IStateQueue=StateDeque")
        cmd = java + ["-cp", JAR, "tlc2.TLC", "-workers", w, "-metadir", os.path.join(d, "md"),
                      "-noGenerateSpecTE", "-config", module + ".cfg"] + list(args) + [module + ".tla"]
        t0 = time.time()
        try:
            r = subprocess.run(cmd, cwd=d, capture_output=True, text=True, timeout=timeout)
        except subprocess.TimeoutExpired:
            subprocess.run(["pkill", "-f", os.path.join(d, "md")])
            raise Infra("TLC timeout (%ds) on %s/%s" % (timeout, name, module))
        out = r.stdout + r.stderr
        res = dict(name=name, module=module, rc=r.returncode, out=out, dir=d, wall=time.time() - t0)
        m = re.search(r"(\d+) states generated, (\d+) distinct states found", out)
        if m:
            res["generated"], res["distinct"] = int(m.group(1)), int(m.group(2))
        m = re.search(r"depth of the complete state graph search is (\d+)", out)
        if m:
            res["depth"] = int(m.group(1))
        res["invariant_violated"] = re.findall(r"Error: Invariant (\w+) is violated", out)
        res["action_prop_violated"] = re.findall(r"Error: Action property (\w+) is violated", out)
        res["temporal_violated"] = "Temporal properties were violated" in out
        res["deadlock"] = "Deadlock reached" in out
        res["ok"] = (r.returncode == 0 and "No error has been found" in out) or \
                    (r.returncode == 0 and "-simulate" in args)
        self.tlc_runs.append({k: res.get(k) for k in ("name", "module", "rc", "generated", "distinct", "depth", "wall")})
        if r.returncode not in (0, 10, 11, 12, 13):
            raise Infra("TLC failed rc=%d on %s/%s:\n%s" % (r.returncode, name, module, out[-3000:]))
        if expect_ok and not res["ok"]:
            raise Infra("TLC reported an error on the DESIGN model %s/%s (model drift or spec bug, "
                        "not a verdict on the code):\n%s" % (name, module, tail_err(out)))
        return res


def tail_err(out, n=60):
    i = out.find("Error:")
    s = out[i:] if i >= 0 else out
    return "\n".join(s.splitlines()[:n])


def run(cmd, **kw):
    r = subprocess.run(cmd, capture_output=True, text=True, **kw)
    if r.returncode != 0:
        raise Infra("command failed: %s\n%s" % (" ".join(cmd), (r.stdout + r.stderr)[-3000:]))
    return r.stdout


def cfg(init="Init", next_="Next", spec=None, constants=None, invariants=(), properties=(),
        constraint=None, action_constraint=None, view=None, post=None, deadlock=False, symmetry=None):
    lines = []
    if spec:
        lines.append("SPECIFICATION " + spec)
    else:
        lines += ["INIT " + init, "NEXT " + next_]
    if constants:
        lines.append("CONSTANTS")
        for k, v in constants.items():
            lines.append("  %s = %s" % (k, tla_val(v)) if not (isinstance(v, str) and v.startswith("<-")) else "  %s %s" % (k, v))
    for i in invariants:
        lines.append("INVARIANT " + i)
    for p in properties:
        lines.append("PROPERTY " + p)
    if constraint:
        lines.append("CONSTRAINT " + constraint)
    if action_constraint:
        lines.append("ACTION_CONSTRAINT " + action_constraint)
    if view:
        lines.append("VIEW " + view)
    if post:
        lines.append("POSTCONDITION " + post)
    if symmetry:
        lines.append("SYMMETRY " + symmetry)
    lines.append("CHECK_DEADLOCK " + ("TRUE" if deadlock else "FALSE"))
    return "\n".join(lines) + "\n"


def tla_val(v):
    if isinstance(v, bool):
        return "TRUE" if v else "FALSE"
    if isinstance(v, int):
        return str(v)
    if isinstance(v, (set, frozenset)):
        return "{" + ", ".join(tla_val(x) for x in sorted(v, key=str)) + "}"
    if isinstance(v, (list, tuple)):
        return "<<" + ", ".join(tla_val(x) for x in v) + ">>"
    return str(v)


# --------------------------------------------------------------- dot graph → scripts
_NODE = re.compile(r'^(-?\d+) \[label="((?:[^"\\]|\\.)*)"(,style = filled)?', re.M)
_EDGE = re.compile(r'^(-?\d+) -> (-?\d+) \[label="([^"]*)"', re.M)
_EV = re.compile(r'ev = \\"((?:[^"\\]|\\.)*?)\\"(?:\\n|$)')


def parse_dot(path, evvar="ev"):
    """Returns (init ids, nodes: id -> decoded ev json or None, edges: id -> [id])."""
    dot = open(path).read()
    nodes, inits = {}, []
    evre = _EV if evvar == "ev" else re.compile(evvar + r' = \\"((?:[^"\\]|\\.)*?)\\"(?:\\n|$)')
    for m in _NODE.finditer(dot):
        nid, lab = m.group(1), m.group(2)
        e = evre.search(lab)
        ev = None
        if e:
            s = e.group(1).replace('\\\\\\"', '"').replace('\\\\', '\\')
            try:
                ev = json.loads(s)
            except Exception:
                ev = None
        nodes[nid] = ev
        if m.group(3):
            inits.append(nid)
    edges = {}
    for m in _EDGE.finditer(dot):
        edges.setdefault(m.group(1), []).append(m.group(2))
    return inits, nodes, edges


def transition_cover(inits, nodes, edges, maxlen=60, rng=None, limit=None):
    """Paths (lists of node ids after the initial state) that together cover every edge."""
    import collections
    par = {}
    q = collections.deque()
    for i in inits:
        par[i] = None
        q.append(i)
    while q:
        u = q.popleft()
        for v in edges.get(u, ()):
            if v not in par:
                par[v] = u
                q.append(v)

    def path_to(u):
        p = []
        while u is not None:
            p.append(u)
            u = par[u]
        return p[::-1]

    unc = set()
    order = []
    for u in edges:
        if u not in par:
            continue
        for v in set(edges[u]):
            if (u, v) not in unc:
                unc.add((u, v))
                order.append((u, v))
    if rng:
        rng.shuffle(order)
    paths = []
    for (u, v) in order:
        if (u, v) not in unc:
            continue
        p = path_to(u) + [v]
        for i in range(len(p) - 1):
            unc.discard((p[i], p[i + 1]))
        cur = v
        while len(p) < maxlen:
            nxt = [w for w in set(edges.get(cur, ())) if (cur, w) in unc]
            if not nxt:
                break
            w = nxt[0] if not rng else rng.choice(sorted(nxt))
            unc.discard((cur, w))
            p.append(w)
            cur = w
        paths.append(p[1:])
        if limit and len(paths) >= limit:
            break
    nedges = len(order)
    return paths, nedges


def parse_simulate(dirpath, prefix, evvar="ev"):
    """TLC -simulate file=<prefix> writes prefix_<w>_<n> text behaviours.  Extracts
    the JSON carried by the `ev` variable of every state."""
    out = []
    pat = re.compile(r'^/\\ ' + evvar + r' = "((?:[^"\\]|\\.)*)"\s*$', re.M)
    for fn in sorted(os.listdir(dirpath)):
        if not fn.startswith(prefix + "_"):
            continue
        txt = open(os.path.join(dirpath, fn)).read()
        beh = []
        for m in pat.finditer(txt):
            s = m.group(1).replace('\\"', '"').replace('\\\\', '\\')
            if s in ("init", ""):
                continue
            try:
                beh.append(json.loads(s))
            except Exception:
                pass
        if beh:
            out.append(beh)
    return out


# ------------------------------------------------------------------ verdict / evidence
def known_findings():
    p = os.path.join(VERIF, "known_findings.json")
    if not os.path.exists(p):
        return []
    return json.load(open(p)).get("findings", [])


def write_evidence(ctx, coverage, violations, assumptions, level="model_checking"):
    ev = dict(property_id=ctx.prop, tier=ctx.tier, seed=ctx.seed, level=level,
              coverage=coverage, assumptions=assumptions,
              wall_s=round(time.time() - ctx.t0, 2), violations=violations)
    # VERIF_SELFVAL_OUT: self-validation runs (mutants, seeded changes) must not overwrite the
    # evidence / replays of the real tree
    out = os.environ.get("VERIF_SELFVAL_OUT") or VERIF
    os.makedirs(os.path.join(out, "evidence"), exist_ok=True)
    p = os.path.join(out, "evidence", ctx.prop + ".json")
    with open(p, "w") as f:
        json.dump(ev, f, indent=1, sort_keys=True)
        f.write("\n")
    return p


def save_replay(ctx, name, obj):
    d = os.path.join(os.environ.get("VERIF_SELFVAL_OUT") or VERIF, "replays")
    os.makedirs(d, exist_ok=True)
    p = os.path.join(d, "%s-%s-seed%d-%s.json" % (ctx.prop, ctx.tier, ctx.seed, name))
    with open(p, "w") as f:
        json.dump(obj, f)
    return p


def _nonull(v):
    if isinstance(v, dict):
        return {k: _nonull(x) for k, x in v.items() if x is not None}
    if isinstance(v, list):
        return [_nonull(x) for x in v]
    return v


def write_ndjson(path, events):
    with open(path, "w") as f:
        for e in events:
            f.write(json.dumps(_nonull(e), separators=(",", ":")))
            f.write("\n")


def read_ndjson(path):
    out = []
    with open(path) as f:
        for line in f:
            line = line.strip()
            if line:
                out.append(json.loads(line))
    return out


_VIOL = re.compile(r'<<\s*"VIOL",\s*(\d+),\s*\{([^}]*)\}\s*>>')


def parse_viol(out):
    """Lines printed by the trace monitors: <<"VIOL", l, {"C01:gap", ...}>>."""
    res = []
    for m in _VIOL.finditer(out):
        tags = re.findall(r'"([^"]+)"', m.group(2))
        res.append((int(m.group(1)), tags))
    if len(res) != out.count('"VIOL"'):
        raise Infra("could not parse every VIOL line printed by TLC (%d of %d)" % (len(res), out.count('"VIOL"')))
    return res


def finish(ctx, violations, coverage, assumptions, level="model_checking"):
    """violations: list of dicts {key, replay, what}.  Prints KNOWN-FINDING /
    VIOLATION lines, writes the evidence file, returns the exit code."""
    kf = [f for f in known_findings() if f.get("property") == ctx.prop and f.get("status") == "known"]
    new, known = [], {}
    for v in violations:
        hit = None
        for f in kf:
            if re.search(f["key"], v["key"]):
                hit = f
                break
        if hit:
            known.setdefault(hit["id"], (hit, v))
        else:
            new.append(v)
    for fid, (f, v) in known.items():
        print("KNOWN-FINDING: property=%s %s [%s] (e.g. %s)" % (ctx.prop, f["what"], fid, v.get("replay")))
    seen = set()
    for v in new:
        if v["key"] in seen:
            continue
        seen.add(v["key"])
        print("VIOLATION property=%s replay=%s" % (ctx.prop, v["replay"]))
        print("  clause: %s   %s" % (v["key"], v.get("what", "")))
    coverage = dict(coverage)
    coverage["known_findings_seen"] = sorted(known.keys())
    coverage["tlc_runs"] = ctx.tlc_runs
    if ctx.notes:
        coverage["notes"] = ctx.notes
    p = write_evidence(ctx, coverage, len(new), assumptions, level)
    log("evidence:", p, "violations:", len(new), "wall: %.1fs" % (time.time() - ctx.t0))
    return 1 if new else 0
