"""Family "proc": C01 C02 C03 C04 C12 C13 C17 — the recording pipeline
(motion/motionprocessor.go + motion/frameloop.go), spec Processor.tla,
monitors ProcMon.tla."""
import json
import os

import vlib
from vlib import cfg as mkcfg

ASSUME = [
    "mock sinks stand in for storage (the real CPTV recorder is bound in the files family); the real motion detector "
    "produces the motion bits (fixed threshold, one-diff, gap 1)",
    "frame ids are carried in pixel (0,0); bad frames carry the poison id 60000",
    "TLC bounds as listed under tlc_runs; monitors are three-valued at the window boundary instants and for "
    "runs of motion interrupted by a bad frame / reset while idle",
    "a TLC counterexample on the design model alone is never reported as a violation (exit 2)",
]

# (N, Trig, Min, Max, Const) for graph dumps; chosen so that every clause is reachable:
# cap (Max > Min >= 2), tiling (N >= 2), trigger run (Trig >= 2), Min = 0, N = 1, Max = 0
REPLAY_CFGS = [
    (2, 1, 2, 3, False), (3, 2, 2, 4, False), (1, 0, 0, 2, False), (3, 1, 1, 1, True),
    (2, 0, 2, 2, True), (4, 3, 3, 4, False), (1, 1, 0, 0, True), (3, 0, 3, 4, True),
    (2, 2, 1, 3, True), (4, 1, 2, 2, False),
]


def design_cfg(prop, tier):
    faults = prop in ("C12", "C13")
    if tier == "quick":
        c = dict(MaxN=2, MaxTrig=2, MaxMin=2, MaxMax=3, MaxFid=5 if not faults else 4, SnapLen=2, Legacy=False)
    else:
        c = dict(MaxN=3, MaxTrig=2, MaxMin=2, MaxMax=3, MaxFid=7 if not faults else 5, SnapLen=2, Legacy=False)
    return c, ("CNextFaults" if faults else "CNextRefusals")


def fps_for(n, trig, mn, mx, rng):
    """Choose fps / preview / min / max seconds realising the frame counts."""
    cands = [f for f in (1, 2, 3) if (n - trig) % f == 0 and mn % f == 0 and mx % f == 0]
    f = rng.choice(cands)
    return dict(fps=f, preview=(n - trig) // f, trig=trig, min=mn // f, max=mx // f)


def gen_random_script(rng, prop, long=False):
    faults = prop == "C12"
    fps = rng.choice([1, 1, 2, 3, 9])
    trig = rng.choice([0, 1, 1, 2, 3])
    preview = rng.choice([0, 1, 1, 2, 3]) if fps < 9 else rng.choice([0, 1])
    if preview * fps + trig < 1:
        trig = 1
    mn = rng.choice([0, 1, 1, 2, 3]) if fps < 9 else rng.choice([0, 1])
    mx = mn + rng.choice([0, 1, 1, 2, 3]) if fps < 9 else mn + rng.choice([0, 1])
    const = rng.random() < (0.8 if prop == "C17" else 0.3)
    win = []
    r = rng.random()
    if r < 0.35:
        win = [600, 840]
    elif r < 0.6:
        win = [1320, 300]       # spans midnight
    elif r < 0.7:
        win = [1, 0]            # almost always open, edges at 00:00/00:01
    cfg = dict(fps=fps, preview=preview, trig=trig, min=mn, max=mx, const=const, win=win,
               shadow=(prop == "C17"), resx=rng.choice([3, 4, 5]), resy=rng.choice([3, 4]),
               thr=rng.random() < 0.35)        # behind the real ThrottledRecorder with an inexhaustible budget
    N, MinF, MaxF = preview * fps + trig, mn * fps, mx * fps
    steps = []
    n = rng.randint(30, 120) if not long else rng.randint(150, 400)
    snap_cool = 0
    while len(steps) < n:
        r = rng.random()
        if r < 0.55:      # a burst of motion with a length near the interesting limits
            L = rng.choice([1, 1, 2, trig, trig + 1, max(1, MinF), MinF + 1, MaxF, MaxF + 1, 2 * MaxF + trig + 2, N + 1])
            L = max(1, min(L, 60))
            gate = rng.random()
            for i in range(L):
                st = dict(a="frame", motion=True, win=True, disk=True, mStart=True)
                if gate < 0.15 and win:
                    st["win"] = rng.random() < 0.4
                elif gate < 0.25:
                    st["disk"] = rng.random() < 0.4
                elif gate < 0.35:
                    st["mStart"] = rng.random() < 0.4
                elif gate < 0.40 and win and rng.random() < 0.3:
                    st["win"] = rng.choice(["edge_s", "edge_e"])
                steps.append(st)
        elif r < 0.85:    # idle gap: every distance from the previous stop
            L = rng.choice([1, 1, 2, 3, N - 1, N, N + 1, MinF, MinF + N, 1 + rng.randint(0, 2 * N + 2)])
            for i in range(max(1, min(L, 40))):
                steps.append(dict(a="frame", motion=False, win=rng.random() < 0.8 if win else True, disk=True))
        elif r < 0.90:
            steps.append(dict(a="bad", zero=rng.randint(1, 11)))
        elif r < 0.94:
            steps.append(dict(a="reset"))
        elif r < 0.99 and (faults or snap_cool <= 0):
            steps.append(dict(a="snapreq"))
            snap_cool = 26
        else:
            steps.append(dict(a="frame", motion=rng.random() < 0.5, win=True, disk=True))
        snap_cool -= 1 if steps and steps[-1]["a"] == "frame" else 0
    # snap_cool counts frames loosely; enforce non-overlap exactly for the fault-free classes
    if not faults:
        out, since = [], 10 ** 9
        for st in steps:
            if st["a"] == "snapreq":
                if since < 23:
                    continue
                since = 0
            elif st["a"] == "frame":
                since += 1
            out.append(st)
        steps = out
    if faults and rng.random() < 0.3:
        # "disk full": from some frame on every write on the motion sink fails for a while
        a = rng.randint(0, max(0, len(steps) - 5))
        for st in steps[a:a + rng.choice([3, MaxF + 3, 2 * MaxF + 5])]:
            if st["a"] == "frame":
                st["mW"] = False
                st["mPre"] = rng.choice([0, 1])
    if not faults:
        # failures that must not change when recordings start and end: the write of the current frame, the stop;
        # and now and then a failed pre-trigger write (which aborts that recording: the clauses are re-armed after it)
        for st in steps:
            if st["a"] == "frame" and rng.random() < 0.06:
                k = rng.choice(["mW", "mW", "mStop", "mPre"])
                st[k] = rng.choice([1, 2]) if k == "mPre" else False
    if faults:
        for st in steps:
            if st["a"] == "frame" and rng.random() < 0.12:
                k = rng.choice(["mPre", "mW", "mStop", "cStart", "cW", "cStop", "sStart", "sW", "sStop", "mStart"])
                st[k] = rng.choice([1, 1, 2, 3]) if k == "mPre" else False
            elif st["a"] in ("bad", "reset") and rng.random() < 0.2:
                st[rng.choice(["mStop", "cStop"])] = False
    if rng.random() < 0.25:
        # stretches of frames whose telemetry reports a recent flat-field correction (the detector reports no motion on
        # them; whatever is recorded, pre-trigger frames included, must still be gap-free)
        i = rng.randrange(0, max(1, len(steps) - 5))
        while i < len(steps):
            for st in steps[i:i + rng.randint(1, 12)]:
                if st["a"] == "frame":
                    st["ffc"] = True
            i += rng.randint(15, 60)
    return dict(cfg=cfg, steps=steps, origin="random")


def build_scripts(ctx, prop, tier):
    rng = ctx.sub_rng("fam_proc.1")
    scripts = []
    stats = dict(cover_edges=0, cover_graphs=[], simulate_behaviours=0)
    flevel = 1 if prop == "C12" else 0
    # ---- (a) transition cover of dumped state graphs
    ncfg = 2 if tier == "quick" else len(REPLAY_CFGS)
    cfgs = rng.sample(REPLAY_CFGS, ncfg)
    if prop == "C17" and not any(c[4] for c in cfgs):
        cfgs[0] = (3, 1, 1, 1, True)
    if prop in ("C03",) and not any(c[3] > c[2] >= 2 for c in cfgs):
        cfgs[0] = (2, 1, 2, 3, False)
    if prop in ("C01", "C02") and not any(c[0] >= 3 for c in cfgs):
        cfgs[0] = (3, 2, 2, 4, False)
    for (n, trig, mn, mx, const) in cfgs:
        maxfid = 7 if tier == "quick" else 9
        if flevel:
            maxfid -= 1
        consts = dict(MaxN=n, MaxTrig=3, MaxMin=4, MaxMax=4, MaxFid=maxfid, SnapLen=2, Legacy=False,
                      CN=n, CTrig=trig, CMin=mn, CMax=mx, CConst=const, FaultLevel=flevel)
        name = "replay_%d_%d_%d_%d_%d" % (n, trig, mn, mx, int(const))
        r = ctx.tlc(name, "ProcReplay", mkcfg(init="RInit", next_="RNext", constants=consts),
                    args=["-dump", "dot,actionlabels", "graph"], timeout=300, heap="4g", expect_ok=True)
        inits, nodes, edges = vlib.parse_dot(os.path.join(r["dir"], "graph.dot"))
        paths, nedges = vlib.transition_cover(inits, nodes, edges, maxlen=40, rng=ctx.sub_rng("proc.cover"),
                                              limit=1500 if tier == "quick" else 12000)   # thorough: <= ~2 M events in all
        base = fps_for(n, trig, mn, mx, ctx.sub_rng("proc.coverbase"))
        base.update(const=const, win=[600, 840], shadow=(prop == "C17"))
        for p in paths:
            steps = [nodes[x] for x in p if nodes.get(x)]
            scripts.append(dict(cfg=dict(base, fps=base["fps"]), steps=steps, origin=name, snaplen=2))
        stats["cover_edges"] += nedges
        stats["cover_graphs"].append(dict(cfg=[n, trig, mn, mx, const], states=r.get("distinct"), edges=nedges,
                                          scripts=len(paths)))
    # ---- (b) TLC -simulate behaviours (deep, SnapLen = 20 as in the code)
    n, trig, mn, mx, const = rng.choice([c for c in REPLAY_CFGS if c[0] >= 2])
    if prop == "C17":
        const = True
    num = 60 if tier == "quick" else 1500
    consts = dict(MaxN=n, MaxTrig=3, MaxMin=4, MaxMax=4, MaxFid=100000, SnapLen=20, Legacy=False,
                  CN=n, CTrig=trig, CMin=mn, CMax=mx, CConst=const, FaultLevel=flevel)
    r = ctx.tlc("simulate", "ProcReplay", mkcfg(init="RInit", next_="RNext", constants=consts), workers=1,
                args=["-simulate", "file=sim,num=%d" % num, "-depth", "90", "-seed", str(ctx.seed)],
                timeout=300, heap="2g")
    behs = vlib.parse_simulate(r["dir"], "sim")
    rng = ctx.sub_rng("proc.random")            # from here on independent of the order of TLC's dumps
    base = fps_for(n, trig, mn, mx, rng)
    base.update(const=const, win=[1320, 300], shadow=(prop == "C17"))
    for bsteps in behs:
        scripts.append(dict(cfg=base, steps=bsteps, origin="simulate"))
    stats["simulate_behaviours"] = len(behs)
    # ---- (c) seeded boundary-biased generator (fps 1..9, windows incl. midnight and edges, long streams)
    nrand = 120 if tier == "quick" else 2500
    for i in range(nrand):
        scripts.append(gen_random_script(rng, prop, long=(i % 10 == 0)))
    stats["random_scripts"] = nrand
    if prop == "C13":
        # ---- (d) a storage call fails on the frame that starts a recording (a pre-trigger write, the write of the trigger
        # frame, ...), and a bad frame arrives before the next motion frame: whatever is open must be ended by it
        frng = ctx.sub_rng("proc.c13-fault-then-bad")
        for i in range(24 if tier == "quick" else 300):
            fps, preview, trig = frng.choice([1, 2, 3]), frng.choice([1, 1, 2]), frng.choice([1, 2, 3])
            mn = frng.choice([1, 2, 3]); mx = mn + frng.choice([1, 3])
            cfg = dict(fps=fps, preview=preview, trig=trig, min=mn, max=mx, const=frng.random() < 0.4, win=[], shadow=False, resx=4, resy=3)
            steps = [dict(a="frame", motion=False, win=True, disk=True) for _ in range(frng.randint(preview * fps, preview * fps + 4))]
            steps += [dict(a="frame", motion=True, win=True, disk=True) for _ in range(trig)]
            fault = frng.choice(["mPre", "mPre", "mPre", "mW", "cW", "none"])
            if fault == "mPre":
                steps[-1]["mPre"] = frng.choice([1, 1, 2, 3])
            elif fault != "none":
                steps[-1][fault] = False
            steps += [dict(a="frame", motion=False, win=True, disk=True) for _ in range(frng.choice([0, 0, 1, 2]))]
            steps.append(dict(a="bad", zero=frng.randint(1, 11)))
            steps += [dict(a="frame", motion=(frng.random() < 0.3), win=True, disk=True) for _ in range(frng.randint(3, mx * fps + 6))]
            scripts.append(dict(cfg=cfg, steps=steps, origin="fault-then-bad"))
        stats["fault_then_bad_scripts"] = 24 if tier == "quick" else 300
    return scripts, stats


def drive(ctx, scripts, name="trace", env=None):
    drv = ctx.go_build("./zzverif/procdrv", "procdrv")
    # cover scripts were generated with SnapLen = 2 in the model, but the code's test recording is 21 frames:
    # the driver reports SnapLen = 20 and the monitors judge with that, the script is just an input sequence.
    inp = ctx.path("run", name + ".scripts.json")
    with open(inp, "w") as f:
        json.dump(dict(scripts=[dict(cfg=s["cfg"], steps=s["steps"]) for s in scripts]), f)
    outp = ctx.path("run", name + ".ndjson")
    import subprocess
    with open(outp, "w") as fo:
        r = subprocess.run([drv, inp], stdout=fo, stderr=subprocess.PIPE, text=True, timeout=1200,
                           env=dict(os.environ, **(env or {})))
    if r.returncode != 0:
        raise vlib.Infra("procdrv failed rc=%d: %s" % (r.returncode, r.stderr[-2000:]))
    return outp


def judge(ctx, trace_path, name="mon", chunk=80000):
    """Run the TLA+ monitors over the recorded trace.  Returns (viol list[(line, tags)], nevents).
    Long traces are judged in pieces cut at script boundaries (a 'cfg' event resets the monitor)."""
    lines = open(trace_path).read().splitlines()
    nev = len(lines)
    pieces, start = [], 0
    for i, ln in enumerate(lines):
        if i - start >= chunk and ln.startswith('{"') and '"ev":"cfg"' in ln.replace(" ", ""):
            pieces.append((start, i)); start = i
    pieces.append((start, nev))
    viol = []
    for pi, (a, b) in enumerate(pieces):
        tp = trace_path
        if len(pieces) > 1:
            tp = "%s.part%d" % (trace_path, pi)
            with open(tp, "w") as f:
                f.write("\n".join(lines[a:b]) + "\n")
        r = ctx.tlc(name if len(pieces) == 1 else "%s_%d" % (name, pi), "ProcMonTrace", mkcfg(init="TInit", next_="TNext", post="Consumed"),
                    workers=1, files=[(tp, "trace.ndjson")], timeout=1800, heap="6g")
        if "Postcondition Consumed" in r["out"] or r.get("distinct", 0) != (b - a) + 1:
            raise vlib.Infra("monitor run did not consume the whole trace (%s of %d):\n%s"
                             % (r.get("distinct"), b - a, vlib.tail_err(r["out"])))
        viol += [(ln + a, tags) for (ln, tags) in vlib.parse_viol(r["out"])]
    return viol, nev


def conform(ctx, trace_path, name="conf"):
    r = ctx.tlc(name, "ProcConfTrace",
                mkcfg(init="TInit", next_="TNext", post="Accepted",
                      constants=dict(MaxN=64, MaxTrig=8, MaxMin=64, MaxMax=64, MaxFid=1000000, SnapLen=20, Legacy=False)),
                workers=1, files=[(trace_path, "trace.ndjson")], timeout=1800, heap="4g")
    import re
    m = re.search(r'"REJECTED-AT",\s*(\d+)', r["out"])
    return (int(m.group(1)) if m else None), r.get("distinct", 0) - 1


def split_scripts(events):
    """index of the script each trace line belongs to, and line ranges per script"""
    owner, ranges, cur = [], {}, -1
    for i, e in enumerate(events):
        if e.get("ev") == "cfg":
            cur = e["script"]
            ranges[cur] = [i, i]
        owner.append(cur)
        ranges[cur][1] = i
    return owner, ranges


def run(ctx, only_scripts=None):
    prop, tier = ctx.prop, ctx.tier
    # ---------------------------------------------------------------- 1. design check
    consts, nxt = design_cfg(prop, tier)
    d = ctx.tlc("design", "ProcCheck",
                mkcfg(init="CInit", next_=nxt, constants=consts, invariants=["NoViolation", "TypeOK", "MonAgrees"],
                      view="CView"), timeout=3000, heap="6g")
    if not d["ok"]:
        raise vlib.Infra("design model violates a monitor/invariant (model drift or spec bug; a verdict needs the "
                         "real code):\n" + vlib.tail_err(d["out"], 80))
    if prop == "C04":
        w = ctx.tlc("window", "Window", mkcfg(constants=dict(Day=12 if tier == "quick" else 48),
                                              invariants=["CodeIsHalfOpen", "ObserverSound"]), timeout=600, heap="2g")
        if not w["ok"]:
            raise vlib.Infra("Window.tla: the code-shaped Active() and the declarative window disagree:\n" + vlib.tail_err(w["out"]))
    # ---------------------------------------------------------------- 2. scripts -> real code
    if only_scripts is None:
        scripts, stats = build_scripts(ctx, prop, tier)
    else:
        scripts, stats = only_scripts, {}
    trace = drive(ctx, scripts)
    events = vlib.read_ndjson(trace)
    owner, ranges = split_scripts(events)
    # ---------------------------------------------------------------- 3. monitors over the real traces
    viol, nev = judge(ctx, trace)
    mine, others, harness = [], {}, []
    for (line, tags) in viol:
        for t in tags:
            if t.startswith("HARNESS"):
                harness.append((line, t))
            elif t.startswith(prop + ":") or (prop == "C14" and t.startswith("C14:")):
                mine.append((line, t))
            else:
                others[t] = others.get(t, 0) + 1
    if harness:
        raise vlib.Infra("harness inconsistency %s" % harness[:3])
    violations = []
    seen = set()
    for (line, tag) in mine:
        if tag in seen:
            continue
        seen.add(tag)
        si = owner[line - 1]
        lo, hi = ranges[si]
        rp = vlib.save_replay(ctx, tag.replace(":", "_"), dict(
            family="proc", property=prop, clause=tag, script=scripts[si], trace_line_in_script=line - 1 - lo,
            trace=events[lo:hi + 1]))
        violations.append(dict(key=tag, replay=rp, what="event %d of script %d (%s)" % (line - 1 - lo, si, scripts[si].get("origin"))))
    if prop == "C17" and only_scripts is None:
        import fam_e2e
        binp = ctx.go_test_build("./cmd/thermal-recorder", "tr.test")
        e2e_runs = fam_e2e.c17_runs(ctx, binp)
        nreq = len(e2e_runs)
        e2e_runs += fam_e2e.c17_reconnect_runs(ctx, binp)
        e2e_runs += fam_e2e.many_reconnects_run(ctx, binp)
        if tier == "thorough":
            e2e_runs += fam_e2e.c17_periodic_run(ctx, binp)      # the daemon's own one-minute test recording (75 s of real time)
            e2e_runs += fam_e2e.c17_window_triggers_run(ctx, binp)   # ... and its 'power on' / 'end of window' ones (up to 160 s)
        for v in fam_e2e.judge_c11(ctx, e2e_runs, binp):
            if v["key"].startswith("C11:e2e-"):
                continue
            v["key"] = v["key"].replace("C11:settings-do-not-shape-files", "C17:end-to-end").replace("C11:", "C17:")
            if v["key"].startswith("C17:") and v["key"] not in seen:
                seen.add(v["key"])
                violations.append(v)
        # beyond the listed properties: the continuous recorder's pruning of old files (Prune.tla), reported as a NOTE
        prune = dict(design=None, scenarios=0, deleting=0, accepted=None, note=None)
        try:
            pd = ctx.tlc("prune_design", "Prune", mkcfg(spec="Spec", constants=dict(Total=10, MaxFiles=3, Sizes={1, 2, 4}),
                                                         invariants=["OnlyWhileLow", "Outcome"], properties=["Terminates"], deadlock=False), timeout=600, heap="2g")
            prune["design"] = dict(ok=pd["ok"], distinct=pd.get("distinct"))
            pev, pnote = fam_e2e.prune_runs(ctx, binp)
            prune["note"] = pnote
            if pev is not None:
                tp = ctx.path("run", "prune.trace.ndjson")
                vlib.write_ndjson(tp, pev)
                pr = ctx.tlc("prune_trace", "PruneTrace", mkcfg(init="TInit", next_="TNext", post="Consumed"), workers=1,
                             files=[(tp, "trace.ndjson")], timeout=600, heap="2g")
                pv = vlib.parse_viol(pr["out"])
                prune.update(scenarios=len(pev), deleting=sum(1 for e in pev if len(e["left"]) < len(e["files"])),
                             accepted=(pr.get("distinct", 0) == len(pev) + 1 and not pv))
                if pv or not pd["ok"]:
                    print("NOTE: deleteExcessRecordings differs from Prune.tla (not one of the listed properties): %s" % sorted({t for (_, ts) in pv for t in ts}))
                    ctx.notes.append("Prune: %s" % sorted({t for (_, ts) in pv for t in ts}))
        except vlib.Infra as e:
            prune["note"] = "prune runs skipped: %s" % str(e)[:200]
        stats["continuous_recorder_pruning_beyond_listed_properties"] = prune
        stats["e2e_runs_with_test_recordings"] = nreq
        stats["e2e_runs_with_reconnects"] = len(e2e_runs) - nreq
    if prop == "C12" and only_scripts is None:
        rs_viol, rs_stats = real_sinks(ctx, tier)
        violations += rs_viol
        stats["real_recorders_on_all_sinks"] = rs_stats
        # the same with a really full disk: the output directory on a 2 MB tmpfs that is filled up and freed again
        mnt = mount_small_fs(ctx, "smallfs")
        try:
            # where mounting is not permitted the same scripts run under a file-size limit of the process instead (EFBIG)
            fs_viol, fs_stats = real_sinks(ctx, tier, smallfs=mnt or "rlimit")
        finally:
            if mnt:
                umount(mnt)
        violations += [v for v in fs_viol if v["key"] not in {x["key"] for x in violations}]
        stats["real_recorders_on_a_full_disk"] = dict(fs_stats, how="2 MB tmpfs" if mnt else "RLIMIT_FSIZE")
        # the three sinks as handleConn wires them (separate recorder objects): a test recording requested in the
        # middle of a motion recording, with the continuous recorder on or off, through the unmodified runMain
        import fam_e2e
        binp = ctx.go_test_build("./cmd/thermal-recorder", "tr.test")
        e2e_runs = fam_e2e.c17_runs(ctx, binp)
        for v in fam_e2e.judge_c11(ctx, e2e_runs, binp):
            if v["key"].startswith("C11:e2e-"):
                continue
            v["key"] = v["key"].replace("C11:settings-do-not-shape-files", "C12:end-to-end").replace("C11:", "C12:")
            if v["key"].startswith("C12:") and v["key"] not in seen:
                seen.add(v["key"])
                violations.append(v)
        stats["e2e_runs_with_overlapping_test_recordings"] = len(e2e_runs)
        # the storage layer behind a throttle that really throttles: real MotionProcessor -> real ThrottledRecorder ->
        # scripted storage with failing starts and stops (cuts, mid-trigger restarts); ThrMon.tla's pairing clauses
        import fam_throttle
        tscripts = [dict(fam_throttle.gen_proc(ctx.sub_rng("fam_proc.2")), origin="proc") for _ in range(60 if tier == "quick" else 800)]
        ttrace = fam_throttle.drive(ctx, tscripts, "c12thr")
        tviol, tnev = fam_throttle.judge(ctx, ttrace, "c12thrmon")
        tev = vlib.read_ndjson(ttrace)
        for (line, tags) in tviol:
            for t in tags:
                if t in ("C06:unexpected-base-call", "C06:pairing-start-while-open", "C06:pairing-write-while-closed",
                         "C06:pairing-call-while-closed", "ANY:throttle-panicked"):
                    key = "C12:storage-calls-unpaired-behind-throttle[%s]" % t.split(":")[1]
                    if key not in seen:
                        seen.add(key)
                        rp = vlib.save_replay(ctx, key.replace(":", "_").replace("[", "_").replace("]", ""), dict(family="proc", property="C12", clause=key, observed=tev[line - 1]))
                        violations.append(dict(key=key, replay=rp, what=json.dumps(tev[line - 1])[:300]))
        stats["throttled_composition_events"] = tnev
    if prop in ("C01", "C02", "C03", "C04") and only_scripts is None:
        # the recordings of runMain while a test recording is made on top (the three sinks as handleConn wires them):
        # the motion files must be exactly the predicted ones
        import fam_e2e
        binp = ctx.go_test_build("./cmd/thermal-recorder", "tr.test")
        oruns = fam_e2e.c17_runs(ctx, binp)
        for v in fam_e2e.judge_c11(ctx, oruns, binp):
            if "motion-files-differ" in v["key"] or "daemon-crashed" in v["key"]:
                key = "%s:end-to-end-with-test-recording[%s]" % (prop, "daemon-crashed" if "crashed" in v["key"] else "motion-files-differ")
                if key not in seen:
                    seen.add(key)
                    violations.append(dict(v, key=key))
        stats["e2e_runs_with_overlapping_test_recordings"] = len(oruns)
    if prop == "C02" and only_scripts is None:
        # C02 behind the throttle as handleConn wires it (start threshold (min-secs+preview-secs)*fps, buckets that run
        # dry during the run): a published file that begins with a trigger's pre-trigger frames holds the trigger frame
        import fam_e2e
        binp = ctx.go_test_build("./cmd/thermal-recorder", "tr.test")
        pruns = fam_e2e.thr_probe_runs(ctx, binp)
        for v in fam_e2e.judge_c11(ctx, pruns, binp):
            if "file-with-preview-lacks-trigger-frame" in v["key"]:
                key = "C02:end-to-end-throttled[file-with-preview-lacks-trigger-frame]"
                if key not in seen:
                    seen.add(key)
                    violations.append(dict(v, key=key))
        stats["e2e_runs_with_throttle"] = len(pruns)
    if prop == "C04" and only_scripts is None:
        import fam_e2e
        binp = ctx.go_test_build("./cmd/thermal-recorder", "tr.test")
        wruns = fam_e2e.c04_window_runs(ctx, binp)
        for v in fam_e2e.judge_c11(ctx, wruns, binp):
            if v["key"].startswith("C11:e2e-"):
                continue
            v["key"] = v["key"].replace("C11:settings-do-not-shape-files", "C04:end-to-end-gates").replace("C11:", "C04:")
            if v["key"].startswith("C04:") and v["key"] not in seen:
                seen.add(v["key"])
                violations.append(v)
        stats["e2e_runs_with_configured_window"] = len(wruns)
        # the disk gate behind a throttle that really throttles (drained bucket, refills during the motion run)
        import fam_throttle
        tscripts = [dict(fam_throttle.gen_proc(ctx.sub_rng("fam_proc.3")), origin="proc") for _ in range(80 if tier == "quick" else 1000)]
        ttrace = fam_throttle.drive(ctx, tscripts, "c04thr")
        tviol, tnev = fam_throttle.judge(ctx, ttrace, "c04thrmon")
        tev = vlib.read_ndjson(ttrace)
        for (line, tags) in tviol:
            for t in tags:
                if t.startswith("C04:") and t not in seen:
                    seen.add(t)
                    rp = vlib.save_replay(ctx, "C04_through_throttle", dict(family="proc", property="C04", clause=t, observed=tev[line - 1]))
                    violations.append(dict(key=t, replay=rp, what=json.dumps(tev[line - 1])[:300]))
        stats["throttled_composition_events"] = tnev
        stats["throttled_frames_without_disk_space"] = sum(1 for e in tev if e.get("ev") == "pframe" and not e["disk"])
        # the storage layer's own free-space computation against statfs (incl. the reserved band of file systems that have one)
        import subprocess
        dout = ctx.path("run", "diskcheck.ndjson")
        r = subprocess.run([binp, "-test.run", "^TestVerifDiskCheck$"], env=dict(os.environ, VERIF_OUT=dout), capture_output=True, text=True, timeout=300)
        if r.returncode != 0 or not os.path.exists(dout):
            raise vlib.Infra("disk-check driver failed: " + (r.stdout + r.stderr)[-2000:])
        dev = vlib.read_ndjson(dout)
        dviol, _ = judge(ctx, dout, "diskmon")
        for (line, tags) in dviol:
            for t in tags:
                if t.startswith("C04:") and t not in seen:
                    seen.add(t)
                    rp = vlib.save_replay(ctx, t.replace(":", "_"), dict(family="proc", property="C04", clause=t, observed=dev[line - 1]))
                    violations.append(dict(key=t, replay=rp, what=json.dumps(dev[line - 1])[:300]))
        stats["disk_checks"] = len(dev)
        stats["disk_checks_in_reserved_band"] = sum(1 for e in dev if e["mb"] > e["avail_hi"] and e["mb"] < e["free"])
    if prop == "C04" and only_scripts is None:
        wv, wstats = config_window(ctx, tier)
        violations += [v for v in wv if v["key"] not in seen]
        stats["config_windows_loaded"] = wstats
    if prop in ("C03", "C17") and only_scripts is None:
        lv, lstats = long_files(ctx, tier, prop)
        violations += [v for v in lv if v["key"] not in seen]
        stats["recordings_longer_than_16_bits"] = lstats
    if prop == "C03" and only_scripts is None:
        cv, cstats = config_lengths(ctx, tier)
        violations += [v for v in cv if v["key"] not in seen]
        stats["config_files_parsed"] = cstats
        import fam_e2e
        binp = ctx.go_test_build("./cmd/thermal-recorder", "tr.test")
        druns = fam_e2e.c03_disconnect_runs(ctx, binp)
        for v in fam_e2e.judge_c11(ctx, druns, binp):
            if v["key"].startswith("C11:e2e-"):
                continue
            v["key"] = v["key"].replace("C11:settings-do-not-shape-files", "C03:end-to-end-disconnect").replace("C11:", "C03:")
            if v["key"].startswith("C03:") and v["key"] not in seen:
                seen.add(v["key"])
                violations.append(v)
        stats["e2e_runs_ending_inside_a_recording"] = len(druns)
    raw_stats = {}
    if prop == "C13" and only_scripts is None:
        rv, raw_stats = raw_frames(ctx, tier)
        violations += rv
        rs_viol, rs_stats = real_sinks(ctx, tier, prop="C13")
        violations += rs_viol
        raw_stats["real_recorders_bad_frames_under_storage_failures"] = rs_stats
        import fam_e2e
        binp = ctx.go_test_build("./cmd/thermal-recorder", "tr.test")
        e2e_runs = fam_e2e.c13_runs(ctx, binp)
        for v in fam_e2e.judge_c11(ctx, e2e_runs, binp):
            if v["key"].startswith("C11:e2e-"):
                continue
            v["key"] = v["key"].replace("C11:settings-do-not-shape-files", "C13:end-to-end").replace("C11:", "C13:")
            if v["key"].startswith("C13:") and v["key"] not in seen:
                seen.add(v["key"])
                violations.append(v)
        raw_stats["e2e_runs_with_bad_frames"] = len(e2e_runs)
        raw_stats["e2e_bad_frames"] = sum(1 for r in e2e_runs if r["kind"] == "predict" for e in r["model_events"] if e["ev"] == "bad")
    # ---------------------------------------------------------------- 4. conformance (drift is not a verdict)
    rej, accepted = conform(ctx, trace)
    conf = dict(events_accepted=accepted, rejected_at=None)
    if rej is not None:
        si = owner[rej - 1]
        lo, hi = ranges[si]
        conf["rejected_at"] = dict(script=si, event=rej - 1 - lo, origin=scripts[si].get("origin"),
                                   line=events[rej - 1])
        ctx.notes.append("conformance: trace is not a behaviour of Processor.tla from script %d on (model drift "
                         "unless a monitor fired)" % si)
        print("DRIFT: real trace rejected by Processor.tla at script %d event %d (not a verdict)" % (si, rej - 1 - lo))
    # ---------------------------------------------------------------- 5. evidence
    ntr = len(ranges)
    hits = dict(frames=0, motion=0, starts=0, refused_window=0, refused_disk=0, start_failed=0, stops=0,
                bad=0, reset=0, snapreq=0, failed_calls=0, edge_instants=0)
    for e in events:
        ev = e.get("ev")
        if ev == "frame":
            hits["frames"] += 1
            hits["motion"] += 1 if e["motion"] else 0
            for c in e["calls"]:
                if c["s"] == "m" and c["op"] == "start":
                    hits["starts"] += 1
                    hits["start_failed"] += 0 if c["ok"] else 1
                if c["s"] == "m" and c["op"] == "stop":
                    hits["stops"] += 1
                if not c["ok"]:
                    hits["failed_calls"] += 1
            if e["motion"] and not e["disk"]:
                hits["refused_disk"] += 1
        elif ev in ("bad", "reset", "snapreq"):
            hits[ev] += 1
    distinct = len({json.dumps([s["cfg"], s["steps"]], sort_keys=True) for s in scripts if any(
        st.get("motion") for st in s["steps"])})
    sample = dict(script=dict(cfg=scripts[0]["cfg"], steps=scripts[0]["steps"][:12]),
                  trace=events[ranges[0][0]:ranges[0][0] + 6]) if scripts else {}
    coverage = dict(
        states=d.get("distinct", 0), transitions=d.get("generated", 0),
        traces_validated_against_impl=ntr,
        samples=[sample],
        exhaustive=True,
        design=dict(constants=consts, next=nxt, depth=d.get("depth")),
        scripts=stats, events_judged=nev, observed=hits, raw_frame_decoding=raw_stats,
        distinct_nontrivial=distinct,
        evaluations=ntr,
        rule="scripts = transition cover of ProcReplay graphs + TLC -simulate behaviours + seeded boundary-biased "
             "generator; non-trivial = contains at least one motion frame; distinct by (cfg, steps)",
        conformance=conf,
        clauses_of_other_properties_fired=others,
    )
    return vlib.finish(ctx, violations, coverage, ASSUME)


def config_lengths(ctx, tier):
    """C03's configuration quantifier at the daemon's front door: ParseConfig on generated config.toml files."""
    import subprocess, fam_e2e
    rng = ctx.sub_rng("fam_proc.4")
    combos = [(0, 0, 0), (0, 0, 1), (1, 1, 0), (2, 2, 1), (0, 1, 0), (0, 5, 2), (10, 10, 5), (10, 600, 5), (3, 4, 0), (600, 600, 0)]
    for _ in range(10 if tier == "quick" else 200):
        mn = rng.choice([0, 1, 2, 5, 10, 59, 60, 300]); mx = mn + rng.choice([0, 0, 1, 2, 10, 590])
        combos.append((mn, mx, rng.choice([0, 1, 2, 5, 30])))
    cfgs = [dict(Min=a, Max=b, Preview=p, Toml=fam_e2e.toml(dict(min=a, max=b, preview=p, const=rng.random() < 0.5, throttle=False,
                                                               motion=dict(fam_e2e.FIXED_MOTION)))) for (a, b, p) in combos]
    binp = ctx.go_test_build("./cmd/thermal-recorder", "tr.test")
    inp, outp = ctx.path("run", "cfglen.json"), ctx.path("run", "cfglen.ndjson")
    json.dump(dict(configs=cfgs), open(inp, "w"))
    r = subprocess.run([binp, "-test.run", "^TestVerifConfigLengths$"], env=dict(os.environ, VERIF_SCRIPT=inp, VERIF_OUT=outp),
                       capture_output=True, text=True, timeout=600)
    if r.returncode != 0 or not os.path.exists(outp):
        raise vlib.Infra("config driver failed: " + (r.stdout + r.stderr)[-2500:])
    events = vlib.read_ndjson(outp)
    if len(events) != len(cfgs):
        raise vlib.Infra("config driver: %d results for %d configs" % (len(events), len(cfgs)))
    viol, nev = judge(ctx, outp, "cfglenmon")
    out, seen = [], set()
    for (line, tags) in viol:
        for tg in tags:
            if tg not in seen:
                seen.add(tg)
                e = events[line - 1]
                rp = vlib.save_replay(ctx, tg.replace(":", "_"), dict(family="proc", property="C03", clause=tg, config=cfgs[e["i"]], observed=e))
                out.append(dict(key=tg, replay=rp, what=json.dumps(e)[:300]))
    return out, dict(configs=len(cfgs), min_equals_max=sum(1 for (a, b, p) in combos if a == b))


def config_window(ctx, tier):
    """C04's window clause at the daemon's front door: ParseConfig on generated config.toml files with a location and an
    absolute or sunrise/sunset-relative window; judged by ProcMonTrace.tla (event cfgwindow)."""
    import subprocess, fam_e2e
    rng = ctx.sub_rng("fam_proc.9")
    locs = [("-43.5", "172.5"), ("51.25", "-0.75"), ("-36.875", "174.75"), ("10.5", "-60.25"), ("35.5", "35.5"), ("-12.25", "96.75")]
    wins = [("-30m", "+30m"), ("+1h", "-1h"), ("-2h30m", "+45m"), ("20:00", "06:00"), ("09:15", "17:45"), ("-15m", "06:30"), ("21:00", "+10m")]
    combos = [(locs[i % len(locs)], wins[i % len(wins)]) for i in range(7)]
    for _ in range(5 if tier == "quick" else 120):
        combos.append((rng.choice(locs), rng.choice(wins)))
    cfgs = []
    for ((la, lo), (st, en)) in combos:
        s = dict(min=1, max=2, preview=1, const=False, throttle=False, motion=dict(fam_e2e.FIXED_MOTION), window=(st, en),
                 location=dict(lat=la, long=lo, alt="10", acc="3"))
        cfgs.append(dict(Toml=fam_e2e.toml(s), Start=st, Stop=en, Lat=la, Long=lo))
    t0 = 1615766820          # 2021-03-15 00:07 UTC
    instants = [t0 + k * 125 * 60 + (k // 12) * 86400 * 45 for k in range(24)]
    binp = ctx.go_test_build("./cmd/thermal-recorder", "tr.test")
    inp, outp = ctx.path("run", "cfgwin.json"), ctx.path("run", "cfgwin.ndjson")
    json.dump(dict(configs=cfgs, instants=instants), open(inp, "w"))
    r = subprocess.run([binp, "-test.run", "^TestVerifConfigWindow$"], env=dict(os.environ, VERIF_SCRIPT=inp, VERIF_OUT=outp),
                       capture_output=True, text=True, timeout=600)
    if r.returncode != 0 or not os.path.exists(outp):
        raise vlib.Infra("config-window driver failed: " + (r.stdout + r.stderr)[-2500:])
    events = vlib.read_ndjson(outp)
    if len(events) != len(cfgs) or any(len(e["ref"]) != 3 * len(instants) for e in events):
        raise vlib.Infra("config-window driver: %d results for %d configs" % (len(events), len(cfgs)))
    viol, nev = judge(ctx, outp, "cfgwinmon")
    out, seen = [], set()
    for (line, tags) in viol:
        for tg in tags:
            if tg not in seen:
                seen.add(tg)
                e = events[line - 1]
                rp = vlib.save_replay(ctx, tg.replace(":", "_"), dict(family="proc", property="C04", clause=tg, config=cfgs[e["i"]], observed=e))
                out.append(dict(key=tg, replay=rp, what=json.dumps(e)[:300]))
    return out, dict(configs=len(cfgs), relative=sum(1 for c in cfgs if c["Start"][0] in "+-" or c["Stop"][0] in "+-"),
                     instants=len(instants), open_answers=sum(sum(e["ref"][0::3]) for e in events),
                     closed_answers=sum(len(instants) - sum(e["ref"][0::3]) for e in events))


def long_files(ctx, tier, prop):
    """C03 / C17 for lengths beyond 16 bits: max-secs*fps > 65535 frames per file, through the real MotionProcessor with
    counting sinks (TestVerifLongFiles; judged by ProcMonTrace.tla event longfiles)."""
    import subprocess
    scripts = [dict(fps=9, min_secs=1, max_secs=7300, frames=2 * 65701 + 50, motion=(prop == "C03")),
               dict(fps=60, min_secs=0, max_secs=1100, frames=66001 + 66001 + 9, motion=(prop == "C03")),
               dict(fps=9, min_secs=2, max_secs=20, frames=2000, motion=(prop == "C03"))]
    if tier == "thorough":
        scripts += [dict(fps=1, min_secs=10, max_secs=70000, frames=140100, motion=(prop == "C03")),
                    dict(fps=3, min_secs=1, max_secs=21845, frames=65536 + 10, motion=True)]
    binm = ctx.go_test_build("./motion", "motion.test")
    inp, outp = ctx.path("run", "longfiles.json"), ctx.path("run", "longfiles.ndjson")
    json.dump(dict(scripts=scripts), open(inp, "w"))
    r = subprocess.run([binm, "-test.run", "^TestVerifLongFiles$"], env=dict(os.environ, VERIF_SCRIPT=inp, VERIF_OUT=outp),
                       capture_output=True, text=True, timeout=900)
    if r.returncode != 0 or not os.path.exists(outp):
        raise vlib.Infra("long-files driver failed: " + (r.stdout + r.stderr)[-2500:])
    events = vlib.read_ndjson(outp)
    if len(events) != len(scripts):
        raise vlib.Infra("long-files driver: %d results for %d scripts" % (len(events), len(scripts)))
    viol, nev = judge(ctx, outp, "longfilesmon")
    out, seen = [], set()
    for (line, tags) in viol:
        for tg in tags:
            if tg.startswith(prop + ":") and tg not in seen:
                seen.add(tg)
                e = events[line - 1]
                rp = vlib.save_replay(ctx, tg.replace(":", "_") + "_long", dict(family="proc", property=prop, clause=tg, script=scripts[e["script"]], observed=e))
                out.append(dict(key=tg + "[long-files]", replay=rp, what=json.dumps(e)[:300]))
    return out, dict(scripts=len(scripts), frames=sum(s["frames"] for s in scripts),
                     files=sum(len(e["clens"]) + len(e["mlens"]) for e in events))


def mount_small_fs(ctx, name, size="2m"):
    """a tmpfs of a few MB under the scratch directory; returns its path or None when mounting is not permitted here"""
    import subprocess
    mnt = ctx.path(name, "x")[:-2]
    os.makedirs(mnt, exist_ok=True)
    r = subprocess.run(["mount", "-t", "tmpfs", "-o", "size=" + size, "tmpfs", mnt], capture_output=True, text=True)
    return mnt if r.returncode == 0 else None


def umount(mnt):
    import subprocess
    subprocess.run(["umount", mnt], capture_output=True)


def real_sinks(ctx, tier, prop="C12", smallfs=None):
    """C12 with REAL CPTVFileRecorders on the motion, continuous and test sinks; start / rename / pruning failures are
    provoked through the file system (the output directory is renamed away and back).  Ends with a long quiet stretch
    and one isolated motion frame whose recording must be exactly what C02/C03 demand."""
    import subprocess
    rng = ctx.sub_rng("fam_proc.5")
    scripts = []
    for i in range(40 if tier == "quick" else 600):
        fps = rng.choice([1, 2, 3])
        preview, trig = rng.choice([0, 1, 2]), rng.choice([1, 1, 2])
        mn = rng.choice([0, 1, 2]); mx = mn + rng.choice([1, 2, 4])
        steps = []
        for k in range(rng.randint(30, 90)):
            r = rng.random()
            if smallfs and r < 0.07:
                steps.append(dict(a="fillfs"))       # the file system is full from here (ENOSPC on whatever is written next)
            elif smallfs and r < 0.14:
                steps.append(dict(a="freefs"))
            elif prop == "C13" and r < 0.05:
                # a bad frame while storage fails (the files in progress cannot be finished), then ordinary frames
                steps += [dict(a="breakdir"), dict(a="bad"), dict(a="frame", motion=rng.random() < 0.5)]
                if rng.random() < 0.5:
                    steps.append(dict(a="fixdir"))
            elif r < 0.06:
                steps.append(dict(a="breakdir"))
            elif r < 0.12:
                steps.append(dict(a="fixdir"))
            elif r < 0.16:
                steps.append(dict(a="bad"))
            elif r < 0.19:
                steps.append(dict(a="reset"))
            elif r < 0.23:
                steps.append(dict(a="snapreq"))
            else:
                steps.append(dict(a="frame", motion=rng.random() < 0.5))
        steps.append(dict(a="fixdir"))
        if smallfs:
            steps.append(dict(a="freefs"))
        N, MinF, MaxF = preview * fps + trig, mn * fps, mx * fps
        quiet = N + MaxF + 25          # everything that was open is over, the test recording (21 frames) too
        steps += [dict(a="frame", motion=False) for _ in range(quiet)]
        steps += [dict(a="frame", motion=True) for _ in range(trig)]        # a run of exactly trigger-frames
        nframes = sum(1 for s in steps if s["a"] == "frame")
        blip = nframes                                                     # the frame that completes the run
        steps += [dict(a="frame", motion=False) for _ in range(MinF + 3)]
        scripts.append(dict(Fps=fps, Preview=preview, Trig=trig, Min=mn, Max=mx, const=rng.random() < (0.85 if prop == "C13" else 0.6),
                            steps=steps, blip=blip))
    binp = ctx.go_test_build("./cmd/thermal-recorder", "tr.test")
    tagname = "realsinks_small" if smallfs else "realsinks"
    inp, outp = ctx.path("run", tagname + ".json"), ctx.path("run", tagname + ".ndjson")
    json.dump(dict(scripts=scripts), open(inp, "w"))
    r = subprocess.run([binp, "-test.run", "^TestVerifRealSinks$"],
                       env=dict(os.environ, VERIF_SCRIPT=inp, VERIF_OUT=outp,
                                **(dict(VERIF_FSLIMIT="1") if smallfs == "rlimit" else dict(VERIF_SMALLFS=smallfs) if smallfs else {})),
                       capture_output=True, text=True, timeout=1800)
    if r.returncode != 0 or not os.path.exists(outp):
        raise vlib.Infra("real-sinks driver failed: " + (r.stdout + r.stderr)[-2500:])
    events = vlib.read_ndjson(outp)
    for e in events:
        if smallfs:
            # files published although the disk was full are C10's business (known finding F-C10-3), not judged here
            e["undecodable_on_full_disk"], e["undecodable"] = e["undecodable"], 0
        sc = scripts[e["script"]]
        # with trigger-frames = 2 the run of two motion frames: the trigger frame is the second one; last motion = trigger
        e["blip"] = sc["blip"]
        e["last"] = e.get("last") or []
    tp = ctx.path("run", tagname + ".trace.ndjson")
    vlib.write_ndjson(tp, events)
    viol, nev = judge(ctx, tp, tagname + "mon")
    out, seen = [], set()
    for (line, tags) in viol:
        for tg in tags:
            if tg in seen:
                continue
            seen.add(tg)
            e = events[line - 1]
            rp = vlib.save_replay(ctx, tg.replace(":", "_"), dict(family="proc", property=prop, clause=tg, script=scripts[e["script"]], observed=e))
            out.append(dict(key=tg, replay=rp, what=json.dumps(e)[:300]))
    out = [v for v in out if v["key"].startswith(prop + ":")]
    return out, dict(scripts=len(scripts), panics=sum(1 for e in events if e["panic"]),
                     final_recordings_checked=sum(1 for e in events if e["last"]),
                     undecodable_files_published_on_a_full_disk=sum(e.get("undecodable_on_full_disk", 0) for e in events))


def raw_frames(ctx, tier, prop="C13"):
    """C13: raw Lepton / Boson frames (zero pixels at every position class incl. the border/interior boundary of
    non-square frames, arbitrary pixel values and telemetry words) through the parser the daemon selects; judged by
    RawFrame.tla on the bytes."""
    import base64, subprocess
    rng = ctx.sub_rng("fam_proc.6")
    scripts = []
    n = 300 if tier == "quick" else 6000
    for i in range(n):
        fmt = rng.choice(["lepton", "boson"])
        model = "boson" if fmt == "boson" else rng.choice(["lepton3", "lepton3.5"])
        w, h = rng.randint(1, 7), rng.randint(1, 7)
        if rng.random() < 0.3:
            w, h = rng.choice([(7, 3), (3, 7), (6, 2), (2, 6)])
        edge = rng.randint(0, max(0, (min(w, h) - 1) // 2))
        pix = [[rng.choice([1, 255, 256, 65535, rng.randint(1, 65535)]) for x in range(w)] for y in range(h)]
        r = rng.random()
        if r < 0.75:
            # zeros at interesting places: just inside / just outside the border on every side
            cands = [(y, x) for y in range(h) for x in range(w)]
            ring = [(y, x) for (y, x) in cands if y in (edge - 1, edge, h - edge - 1, h - edge) or x in (edge - 1, edge, w - edge - 1, w - edge)]
            for _ in range(rng.choice([1, 1, 2])):
                (y, x) = rng.choice(ring or cands)
                pix[y][x] = 0
        tel = bytearray(640)
        if fmt == "lepton":
            for k in range(320):
                v = rng.choice([0, 1, 0x7fff, rng.randint(0, 0x7fff)])
                tel[2 * k], tel[2 * k + 1] = v >> 8, v & 255
        body = bytearray()
        for y in range(h):
            for x in range(w):
                v = pix[y][x]
                body += bytes([v >> 8, v & 255]) if fmt == "lepton" else bytes([v & 255, v >> 8])
        raw = bytes(tel) + bytes(body) if fmt == "lepton" else bytes(body)
        scripts.append(dict(fmt=fmt, model=model, W=w, H=h, edge=edge, bytes=base64.b64encode(raw).decode()))
    binp = ctx.go_test_build("./cmd/thermal-recorder", "tr.test")
    inp, outp = ctx.path("run", "raw.json"), ctx.path("run", "raw.ndjson")
    json.dump(dict(scripts=scripts), open(inp, "w"))
    r = subprocess.run([binp, "-test.run", "^TestVerifRaw$"], env=dict(os.environ, VERIF_SCRIPT=inp, VERIF_OUT=outp),
                       capture_output=True, text=True, timeout=900)
    if r.returncode != 0 or not os.path.exists(outp):
        out = r.stdout + r.stderr
        if "panic:" in out:
            return [dict(key="C13:parser-panicked", replay=vlib.save_replay(ctx, "raw_panic", dict(output=out[-2000:])), what=out[-300:])], dict(raw_frames=0)
        raise vlib.Infra("raw driver failed: " + out[-2000:])
    events = vlib.read_ndjson(outp)
    t = ctx.tlc("raw", "RawFrame", mkcfg(init="TInit", next_="TNext", post="Consumed"), workers=1,
                files=[(outp, "trace.ndjson")], timeout=1800, heap="4g")
    if t.get("distinct", 0) != len(events) + 1:
        raise vlib.Infra("RawFrame.tla did not consume the trace\n" + vlib.tail_err(t["out"]))
    out, seen = [], set()
    for (line, tags) in vlib.parse_viol(t["out"]):
        for tg in tags:
            if tg in seen:
                continue
            seen.add(tg)
            e = events[line - 1]
            rp = vlib.save_replay(ctx, tg.replace(":", "_"), dict(family="proc", property=prop, clause=tg,
                                  script=scripts[e.get("script", 0)], observed={k: e[k] for k in e if k != "bytes"}))
            out.append(dict(key=tg, replay=rp, what="fmt=%s %dx%d edge %d" % (e.get("fmt"), e.get("w", 0), e.get("h", 0), e.get("edge", 0))))
    raws = [e for e in events if e["ev"] == "raw"]
    return out, dict(raw_frames=len(raws), raw_bad=sum(1 for e in raws if e["bad"]), raw_boson=sum(1 for e in raws if e["fmt"] == "boson"))


def replay(ctx, path):
    rp = json.load(open(path))
    sc = rp["script"]
    trace = drive(ctx, [sc], "replay")
    viol, nev = judge(ctx, trace, "replaymon")
    tags = sorted({t for (_, ts) in viol for t in ts if t.startswith(ctx.prop + ":")})
    if tags:
        print("VIOLATION property=%s replay=%s" % (ctx.prop, path))
        print("  clauses:", ", ".join(tags))
        return 1
    print("replay: no clause of %s fired" % ctx.prop)
    return 0
