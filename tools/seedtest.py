#!/usr/bin/env python3
"""Confirm a seeded change produced by an independent sub-agent and run the checks against it.
usage: seedtest.py Cxx [--props C01,C02] [--keep]
Reads /tmp/seedout/Cxx/{patch.diff, demo files, notes.md}; uses a fresh scratch worktree of /repo."""
import argparse, glob, json, os, shutil, subprocess, sys, time
V = os.path.dirname(os.path.dirname(os.path.abspath(__file__)))
ENV = dict(os.environ, GOFLAGS="-mod=mod", GOPROXY="off", GOSUMDB="off", GOTOOLCHAIN="local")


def sh(cmd, cwd=None, env=None, timeout=1800):
    r = subprocess.run(cmd, shell=True, cwd=cwd, env=env or ENV, capture_output=True, text=True, timeout=timeout)
    return r.returncode, r.stdout + r.stderr


def main():
    ap = argparse.ArgumentParser()
    ap.add_argument("pid")
    ap.add_argument("--props")
    ap.add_argument("--tier", default="quick")
    ap.add_argument("--name")
    ap.add_argument("--src")
    ap.add_argument("--wt")
    ap.add_argument("--tags", default="")
    a = ap.parse_args()
    src = a.src or "/tmp/seedout/%s" % (a.name or a.pid)
    patch = os.path.join(src, "patch.diff")
    assert os.path.exists(patch), "no patch.diff"
    wt = "/tmp/seedconfirm/%s%s" % (a.name or a.pid, "b" if a.src else "")
    sh("git -C /repo worktree remove --force %s" % wt)
    shutil.rmtree(wt, ignore_errors=True)
    os.makedirs("/tmp/seedconfirm", exist_ok=True)
    rc, out = sh("git -C /repo worktree add -q --detach %s HEAD" % wt)
    assert rc == 0, out
    meta = dict(property=a.pid, ran=[])
    try:
        demos = [f for f in glob.glob(os.path.join(src, "*")) if f.endswith("_test.go") or f.endswith(".go")]
        # where does the demo go?  take the location from the agent's worktree
        agent_wt = a.wt or "/tmp/seedwt/%s" % (a.name or a.pid)
        rc, lst = sh("git -C %s status --porcelain --untracked-files=all" % agent_wt)
        demo_paths = [l[3:].strip() for l in lst.splitlines() if l.startswith("??") and l.strip().endswith(".go")]
        for dp in demo_paths:
            os.makedirs(os.path.dirname(os.path.join(wt, dp)), exist_ok=True)
            shutil.copy(os.path.join(agent_wt, dp), os.path.join(wt, dp))
        meta["demo_files"] = demo_paths
        demo_pkgs = sorted({"./" + os.path.dirname(p) for p in demo_paths})
        # 1. unchanged code: demo passes
        tg = ("-tags %s " % a.tags) if a.tags else ""
        rc0, out0 = sh("go test %s-count=1 %s" % (tg, " ".join(demo_pkgs)), cwd=wt) if demo_pkgs else (0, "")
        meta["demo_passes_without_change"] = rc0 == 0
        # 2. apply patch: builds, existing suite (demo moved away) passes, demo fails
        rc, out = sh("git apply %s" % patch, cwd=wt)
        assert rc == 0, "patch does not apply: " + out
        rcb, outb = sh("go build ./...", cwd=wt)
        meta["builds"] = rcb == 0
        for dp in demo_paths:
            os.rename(os.path.join(wt, dp), os.path.join(wt, dp) + ".off")
        rct, outt = sh("go test -vet=off -count=1 ./...", cwd=wt)
        meta["suite_passes_with_change"] = rct == 0
        for dp in demo_paths:
            os.rename(os.path.join(wt, dp) + ".off", os.path.join(wt, dp))
        rc1, out1 = sh("go test %s-count=1 %s" % (tg, " ".join(demo_pkgs)), cwd=wt) if demo_pkgs else (1, "")
        meta["demo_fails_with_change"] = rc1 != 0
        print("confirm:", {k: meta[k] for k in ("builds", "suite_passes_with_change", "demo_passes_without_change", "demo_fails_with_change")}, flush=True)
        if not meta["suite_passes_with_change"]:
            print(outt[-1500:])
        # 3. the checks, against this tree (VERIF_REPO): equivalent to `git -C /repo apply` + check + checkout
        props = a.props.split(",") if a.props else [a.pid]
        for pr in props:
            t0 = time.time()
            rc, out = sh("./check %s --tier %s" % (pr, a.tier), cwd=V, env=dict(ENV, VERIF_REPO=wt, VERIF_SELFVAL_OUT="/tmp/verif-selfval-out"), timeout=3600)
            lines = [l for l in out.splitlines() if l.startswith(("VIOLATION", "  clause", "INFRA", "KNOWN"))]
            print("%s on %s: rc=%d  %s" % (pr, a.name or a.pid, rc, " | ".join(x[:160] for x in lines[:4])), flush=True)
            meta["ran"].append(dict(check=pr, tier=a.tier, rc=rc, lines=lines[:6], wall_s=round(time.time() - t0, 1)))
        meta["detected_by"] = [r["check"] for r in meta["ran"] if r["rc"] == 1]
    finally:
        sh("git -C /repo worktree remove --force %s" % wt)
        shutil.rmtree(wt, ignore_errors=True)
    json.dump(meta, open(os.path.join(src, "confirm.json"), "w"), indent=1)


if __name__ == "__main__":
    main()
