"""Family "detect": C07 C08 C09 C15 — motion/motion.go, specs Detector.tla (code-shaped),
DetCheck.tla (design invariants), DetMon.tla (observers)."""
import json
import os
import subprocess

import vlib
from vlib import cfg as mkcfg

ASSUME = [
    "in-package driver (build tag verif) reads tempThresh and background after every Detect; frames are built directly "
    "as cptvframe.Frame with the telemetry the harness chooses (aff = TimeOn - LastFFCTime < 10 s, ages 9999/10001 ms "
    "around the boundary, never exactly 10 s)",
    "threshold = clamped mean is accepted within +-1 count (float64 accumulation in the code); weight ties "
    "(10*(new-bg) = k tenths) are accepted either way in conformance",
    "C09 independence is judged on paired histories that are identical from the first affected frame of an FFC period "
    "(or from a reset, fixed threshold) and arbitrary before; C08 on paired streams equal on the interior (dynamic) or "
    "equal after clamping at temp-thresh (fixed)",
    "design model: 4x3 frames with a 1-pixel border (2 interior pixels), small value sets; real traces 3x3..8x6",
]

BASE_TLA = '''---- MODULE DC ----
EXTENDS %s
Base == [w |-> 4, h |-> 3, edge |-> 1, T |-> 10, preview |-> 1, dyn |-> FALSE, tmin |-> 0, tmax |-> 0, fixedCode |-> TRUE]
CfgsFixed == {Base @@ [gap |-> g, one |-> o, warmer |-> wm, delta |-> 2, cnt |-> k] : g \\in {1, 2}, o \\in BOOLEAN, wm \\in BOOLEAN, k \\in {1, 2}}
CfgsFixedQ == {Base @@ [gap |-> g, one |-> o, warmer |-> wm, delta |-> 2, cnt |-> 1] : g \\in {1, 2}, o \\in BOOLEAN, wm \\in BOOLEAN}
DynBase == [w |-> 4, h |-> 3, edge |-> 1, T |-> 10, dyn |-> TRUE, warmer |-> FALSE, delta |-> 2, cnt |-> 1, fixedCode |-> TRUE]
CfgsDyn == {DynBase @@ [gap |-> g, one |-> o, preview |-> pv, tmin |-> mn, tmax |-> mx] :
              g \\in {1, 2}, o \\in BOOLEAN, pv \\in {0, 1}, mn \\in {0, 11}, mx \\in {0, 12}}
CfgsDynQ == {DynBase @@ [gap |-> 1, one |-> o, preview |-> pv, tmin |-> mn, tmax |-> mx] :
              o \\in BOOLEAN, pv \\in {0, 1}, mn \\in {0, 11}, mx \\in {0, 12}}
====
'''


def design(ctx, prop, tier):
    d = ctx.tlc_dir("design", None)
    open(os.path.join(d, "DC.tla"), "w").write(BASE_TLA % "DetCheck")
    fixed = prop in ("C07", "C08")
    if fixed:
        consts = dict(W=4, H=3, E=1, Vals={9, 10, 12, 13}, BorderVal=50, MaxLen=3 if tier == "quick" else 4,
                      WithFFC=False, MaxResets=1, Cfgs="<- " + ("CfgsFixedQ" if tier == "quick" else "CfgsFixed"))
        invs = ["C07", "C09Suppress", "ThreshFixed"]
    else:
        consts = dict(W=4, H=3, E=1, Vals={8, 14}, BorderVal=50, MaxLen=3 if tier == "quick" else 4,
                      WithFFC=True, MaxResets=1, Cfgs="<- " + ("CfgsDynQ" if tier == "quick" else "CfgsDyn"))
        invs = ["C09Suppress", "Envelope", "BorderRep", "Reseed", "ThreshRule", "ThreshRange"]
    r = ctx.tlc("design", "DC", mkcfg(init="CInit", next_="CNext", constants=consts, invariants=invs),
                timeout=3000, heap="6g")
    if not r["ok"]:
        raise vlib.Infra("Detector design check failed (spec bug, not a verdict):\n" + vlib.tail_err(r["out"], 60))
    return r, consts


# ----------------------------------------------------------------------------- script generation
def interior(w, h, e):
    return [(y, x) for y in range(e, h - e) for x in range(e, w - e)]


def rand_cfg(rng, dyn=False):
    w, h = rng.randint(3, 8), rng.randint(3, 6)
    e = rng.randint(0, (min(w, h) - 1) // 2)
    T = rng.choice([1000, 2900, 30000, 5])
    c = dict(W=w, H=h, Edge=e, T=T, Delta=rng.choice([1, 5, 30, 50, 200]), Cnt=1, Gap=rng.choice([1, 1, 2, 3]),
             One=rng.random() < 0.5, Warmer=rng.random() < 0.5, Dyn=dyn, Tmin=0, Tmax=0, Preview=rng.choice([0, 1, 2, 5]))
    ni = len(interior(w, h, e))
    c["Cnt"] = rng.choice([1, 1, 2, 3, ni, max(1, ni - 1)])
    c["Cnt"] = max(1, min(c["Cnt"], ni))
    if dyn:
        r = rng.random()
        if r < 0.25:
            c["Tmin"] = 0; c["Tmax"] = 0
        elif r < 0.5:
            c["Tmin"] = T; c["Tmax"] = 0
        elif r < 0.75:
            c["Tmin"] = 0; c["Tmax"] = T + 300
        else:
            c["Tmin"] = T; c["Tmax"] = T + 300
    elif rng.random() < 0.4:
        # a fixed threshold with the optional limits set as well: valid, and the limits must stay without effect
        c["Tmin"], c["Tmax"] = rng.choice([(T - 100 if T > 100 else 1, 0), (0, T + 300), (max(1, T - 200), T + 200), (T + 50, T + 400)])
    return c


def gen_stream(rng, c, n, ffc=False, resets=True):
    """boundary-biased frames: a base scene with k pixels moved by delta / delta+1 around T"""
    w, h, e, T, dl = c["W"], c["H"], c["Edge"], c["T"], c["Delta"]
    inter = interior(w, h, e)
    level = rng.choice([T - 200, T - 1, T, T + 1, T + 150, T + 400, T + 600])
    level = max(1, min(65000, level))
    base = [[max(0, min(65535, level + rng.choice([0, 0, 0, 1, -1, 3]))) for x in range(w)] for y in range(h)]
    steps, age = [], 60000
    cur = [row[:] for row in base]
    i = 0
    while i < n:
        r = rng.random()
        if resets and r < 0.04 and i > 0:
            steps.append(dict(a="reset")); i += 1; continue
        if ffc and r < 0.12:
            # an FFC period of 1..4 frames (ages below 10 s), sometimes back-to-back
            for k in range(rng.randint(1, 4)):
                nf = mutate(rng, cur, c, inter)
                steps.append(dict(a="frame", pix=nf, ffcAge=rng.choice([0, 1000, 5000, 9999]))); cur = nf; i += 1
            age = rng.choice([10000, 10001, 60000])      # exactly 10 s after the FFC is not 'within' it
            continue
        nf = mutate(rng, cur, c, inter)
        steps.append(dict(a="frame", pix=nf, ffcAge=age if ffc else 60000))
        age = 60000
        cur = nf; i += 1
    return steps


def mutate(rng, cur, c, inter):
    w, h, T, dl = c["W"], c["H"], c["T"], c["Delta"]
    nf = [row[:] for row in cur]
    r = rng.random()
    if r < 0.25:
        return nf
    k = rng.choice([1, c["Cnt"] - 1, c["Cnt"], c["Cnt"] + 1, len(inter)])
    k = max(0, min(k, len(inter)))
    for (y, x) in rng.sample(inter, k):
        d = rng.choice([dl, dl + 1, dl - 1, -dl, -dl - 1, 2 * dl + 2, 1])
        v = nf[y][x]
        if rng.random() < 0.3:
            v = rng.choice([T - 1, T, T + 1, T + dl, T + dl + 1, 0, 65535, T - dl - 5])
        else:
            v = v + d
        nf[y][x] = max(0, min(65535, v))
    if rng.random() < 0.3:      # border noise
        for y in range(h):
            for x in range(w):
                if (y, x) not in inter and rng.random() < 0.5:
                    nf[y][x] = rng.choice([0, 65535, rng.randint(0, 65535)])
    return nf


def pair_border(rng, steps, c):
    inter = set(interior(c["W"], c["H"], c["Edge"]))
    for st in steps:
        if st["a"] != "frame":
            continue
        p2 = [row[:] for row in st["pix"]]
        for y in range(c["H"]):
            for x in range(c["W"]):
                if (y, x) not in inter:
                    p2[y][x] = rng.choice([0, 65535, rng.randint(0, 65535), p2[y][x]])
        st["pix2"] = p2


def pair_cold(rng, steps, c):
    T = c["T"]
    for st in steps:
        if st["a"] != "frame":
            continue
        p2 = [row[:] for row in st["pix"]]
        for y in range(c["H"]):
            for x in range(c["W"]):
                if p2[y][x] <= T and rng.random() < 0.6:
                    p2[y][x] = rng.choice([0, T, max(0, T - 1), rng.randint(0, T)])
        st["pix2"] = p2


def pair_history(rng, steps, c):
    """second stream: arbitrary content before a cut point that is the first affected frame of an FFC period or
    (fixed threshold) the frame after a reset; identical afterwards"""
    cuts = []
    prev_aff = False
    for i, st in enumerate(steps):
        if st["a"] == "reset":
            if not c["Dyn"]:
                cuts.append(i + 1)
            continue
        aff = st["ffcAge"] < 10000
        if aff and not prev_aff:
            cuts.append(i)
        prev_aff = aff
    cut = rng.choice(cuts) if cuts else 0
    T = c["T"]
    for i, st in enumerate(steps):
        if st["a"] != "frame":
            continue
        if i < cut:
            st["pix2"] = [[max(0, min(65535, v + rng.choice([0, 50, -50, 500, -T, 1]))) for v in row] for row in st["pix"]]
        else:
            st["pix2"] = [row[:] for row in st["pix"]]


def chain_ffc_in_recording(rng):
    """processor-chain pair: two streams with different scenes before an FFC period that lies wholly inside a recording
    running at its maximum length (min-secs = max-secs), identical from the first affected frame on; after the period
    the scene returns to stream 1's old level, so any comparison with pre-period frames shows as motion in stream 2 only"""
    w, h = rng.randint(3, 5), rng.randint(3, 4)
    c = dict(W=w, H=h, Edge=0, T=rng.choice([5, 1000]), Delta=rng.choice([5, 30]), Cnt=1, Gap=rng.choice([1, 2, 3]),
             One=rng.random() < 0.5, Warmer=False, Dyn=False, Tmin=0, Tmax=0, Preview=0)
    L = c["T"] + rng.choice([100, 500])
    L2 = L + rng.choice([200, 1000])
    M = rng.randint(13, 17)
    steps = []
    def fr(v, age, v2=None, hot=False):
        p1 = [[v] * w for _ in range(h)]
        p2 = [[(v if v2 is None else v2)] * w for _ in range(h)]
        if hot:
            p1[1][1] += 2000; p2[1][1] += 2000
        return dict(a="frame", pix=p1, pix2=p2, ffcAge=age)
    npre = rng.randint(4, 7)
    for k in range(npre):
        steps.append(fr(L, 60000, L2))
    steps.append(fr(L, 60000, L2, hot=True))                   # trigger in both streams: the recording runs M frames
    nin = rng.randint(0, 2)
    for k in range(nin):
        steps.append(fr(L, 60000, L2))
    nper = rng.randint(1, 9)
    P = L + 3000                                               # the period itself sits at another level (same in both)
    for k in range(nper):
        steps.append(fr(P, rng.choice([0, 1000, 9999])))
    rest = M - 1 - nin - nper                                  # frames of the recording left after the period
    for k in range(max(0, rest) + rng.randint(3, 8)):
        steps.append(fr(L, 60000))
    return dict(cfg=c, fps=1, preview_secs=rng.choice([0, 1]), min_secs=M, max_secs=M, trig=1, steps=steps, kind="history")


def gen_weight_memory(rng):
    """targeted C09 pair (dynamic threshold): the streams differ only in the first frame of the connection (colder in
    stream 1, so its background sits below the scene and the per-pixel weights grow until the FFC); after the FFC period
    the background is re-seeded, the scene drifts up by one count and a pixel moves from the old level to drift+delta: whether
    that counts as motion depends on whether the threshold followed the drift, which must not depend on the pre-FFC past"""
    w, h = rng.randint(3, 5), rng.randint(3, 4)
    e = rng.choice([0, 0, 1]) if min(w, h) >= 3 else 0
    dl = rng.choice([5, 20, 50])
    L = rng.choice([1000, 3000, 30000])
    c = dict(W=w, H=h, Edge=e, T=L - 500, Delta=dl, Cnt=1, Gap=1, One=True, Warmer=rng.random() < 0.5, Dyn=True, Tmin=0, Tmax=0,
             Preview=0)
    inter = interior(w, h, e)
    (ty, tx) = rng.choice(inter)
    def fr(v, age, v2=None, target=None):
        p1 = [[v] * w for _ in range(h)]
        p2 = [[(v if v2 is None else v2)] * w for _ in range(h)]
        if target is not None:
            p1[ty][tx] = target; p2[ty][tx] = target
        return dict(a="frame", pix=p1, pix2=p2, ffcAge=age)
    drop, d = 8, 4
    steps = [fr(L - drop, 60000, L)]                                   # the only difference between the streams
    for i in range(rng.randint(55, 70)):                               # stream 1's weights grow to about 6 counts
        steps.append(fr(L, 60000))
    for i in range(rng.randint(1, 3)):
        steps.append(fr(L, rng.choice([0, 2000, 9999])))              # the FFC period
    steps.append(fr(L, rng.choice([10000, 10001, 60000])))                    # re-seed
    steps.append(fr(L + d, 60000))                                     # a drift smaller than the stale weights
    for k in range(2):
        steps.append(fr(L + d, 60000, target=L + 2))                   # below a threshold that followed the drift
        steps.append(fr(L + d, 60000, target=L + 3 + dl))              # delta above it / delta + 1 above the old level
    return dict(cfg=c, kind="history", steps=steps)


def fr_flat(w, h, v, age, v2=None):
    return dict(a="frame", pix=[[v] * w for _ in range(h)], ffcAge=age, pix2=[[(v if v2 is None else v2)] * w for _ in range(h)])


def gen_boot(rng, c):
    """a camera that has just been powered on: no flat-field correction reported yet (LastFFCTime = 0) and TimeOn below
    10 s, i.e. inside the FFC period by the rule TimeOn - LastFFCTime < 10 s; the scene warms up meanwhile.  The first
    frame outside the period re-seeds the background; nothing before it may trigger."""
    w, h, T = c["W"], c["H"], c["T"]
    L = T + rng.choice([300, 600])
    steps = []
    nboot = rng.randint(2, 9)
    for i in range(nboot):
        v = L - 200 + 10 * i + rng.choice([0, 40])
        steps.append(dict(a="frame", pix=[[max(1, v)] * w for _ in range(h)], ffcAge=1000 * (i + 1), neverFfc=True))
    more = gen_stream(rng, c, rng.randint(8, 25), ffc=rng.random() < 0.3, resets=False)
    t = 1000 * (nboot + 1)
    for st in more:
        if st["a"] == "frame" and st["ffcAge"] >= 10000 and rng.random() < 0.5:
            t = max(t + 1000, 10000)
            st["ffcAge"], st["neverFfc"] = t, True        # still no FFC since power-on, but TimeOn is past 10 s
    return steps + more


def gen_stale_diff(rng):
    """targeted C09 pair for the two-comparison rule (use-one-diff-only off): stream 2 has one pixel moving in the last
    frames before the FFC period (stream 1 is static there); after the period the same pixel moves ONCE - not motion by
    the rule (the previous comparison saw nothing), unless a comparison result from before the period is still around."""
    w, h = rng.randint(3, 5), rng.randint(3, 4)
    e = rng.choice([0, 1]) if min(w, h) >= 3 else 0
    c = dict(W=w, H=h, Edge=e, T=rng.choice([5, 1000]), Delta=rng.choice([5, 30]), Cnt=1, Gap=1, One=False, Warmer=rng.random() < 0.5,
             Dyn=False, Tmin=0, Tmax=0, Preview=rng.choice([0, 1]))
    L, D = c["T"] + 200, c["Delta"] + rng.choice([1, 50])
    (py, px) = rng.choice(interior(w, h, e))
    def fr(age, hot1=False, hot2=False):
        st = fr_flat(w, h, L, age)
        if hot1:
            st["pix"][py][px] = L + D
        if hot2:
            st["pix2"][py][px] = L + D
        return st
    steps = [fr(60000) for _ in range(rng.randint(2, 5))]
    k = rng.choice([1, 2, 3])                                  # stream 2: the pixel toggles on the last k frames before the period
    for i in range(k):
        steps.append(fr(60000, hot2=(i % 2 == (k - 1) % 2)))   # ... ending hot, so the last comparison before the period saw it move
    steps += [fr(rng.choice([0, 2000, 9999])) for _ in range(rng.randint(1, 5))]
    steps.append(fr(rng.choice([10000, 60000])))               # directly after the period
    for i in range(rng.randint(0, 2)):
        steps.append(fr(60000))
    steps.append(fr(60000, hot1=True, hot2=True))              # one move after the period, both streams
    steps += [fr(60000) for _ in range(rng.randint(2, 4))]
    steps.append(fr(60000, hot1=True, hot2=True))
    steps.append(fr(60000, hot1=True, hot2=True))
    steps += [fr(60000) for _ in range(2)]
    return dict(cfg=c, kind="history", steps=steps)


def gen_across(rng, early=False):
    """targeted C09 pair (early: the FFC period begins and ends within the first frame-compare-gap frames of the stream,
    before the detector's history has wrapped once): identical from the first FFC-affected frame on, different scene level before it; the
    frames after the period sit at the level of stream 1's past, so a comparison across the period shows up as
    motion in stream 2 only"""
    w, h = rng.randint(3, 6), rng.randint(3, 5)
    e = rng.randint(0, (min(w, h) - 1) // 2)
    dyn = rng.random() < 0.3
    c = dict(W=w, H=h, Edge=e, T=rng.choice([5, 1000]), Delta=rng.choice([5, 30]), Cnt=1, Gap=rng.choice([1, 2, 3, 3, 4]),
             One=rng.random() < 0.5, Warmer=rng.random() < 0.5, Dyn=dyn, Tmin=0, Tmax=0, Preview=rng.choice([0, 1, 3]))
    L = c["T"] + rng.choice([100, 500])
    L2 = L + rng.choice([200, 1000]) * rng.choice([1, 1, -1])
    L2 = max(c["T"] + 1, L2) if L2 > 0 else L + 300
    npre, nper, npost = rng.randint(1, 6), rng.randint(1, 4), rng.randint(3, 8)
    use_reset = (not dyn) and rng.random() < 0.45
    if early:
        c["Gap"], c["Dyn"], dyn, use_reset = rng.choice([4, 6, 9]), False, False, False
        npre, nper = rng.randint(1, 2), rng.randint(1, 2)
        steps = [fr_flat(w, h, L, 60000, L2) for i in range(npre)]
        steps += [fr_flat(w, h, L + rng.choice([0, 3]), rng.choice([0, 2000, 9999])) for i in range(nper)]
        steps += [fr_flat(w, h, L + rng.choice([0, 1, 2]), 60000 if i else rng.choice([10000, 10001, 60000])) for i in range(npost)]
        return dict(cfg=c, kind="history", steps=steps)
    steps = []
    def fr(v, age, v2=None):
        st = dict(a="frame", pix=[[v] * w for _ in range(h)], ffcAge=age)
        st["pix2"] = [[(v if v2 is None else v2)] * w for _ in range(h)]
        return st
    if dyn and rng.random() < 0.7:
        # dynamic threshold: one past colder, one past warmer than the present scene P; afterwards pixels move just
        # below P, which is visible or not depending on a threshold / background that must not remember the past
        P = c["T"] + 600
        c["Preview"] = rng.choice([0, 1, 2])
        d = c["Delta"] + 10
        for i in range(max(npre, c["Preview"] + 2)):
            steps.append(fr(P - 300, 60000, P + 300))
        for i in range(nper):
            steps.append(fr(P, rng.choice([0, 2000, 9999])))
        for i in range(npost + 3):
            st = fr(P, 60000 if i else rng.choice([10000, 10001, 60000]))
            if i >= 1 and i % 2 == 1:
                for (y, x) in rng.sample(interior(w, h, e), max(1, len(interior(w, h, e)) // 2)):
                    st["pix"][y][x] = P - d
                    st["pix2"][y][x] = P - d
            steps.append(st)
        return dict(cfg=c, kind="history", steps=steps)
    for i in range(npre):
        steps.append(fr(L, 60000, L2))
    if use_reset and rng.random() < 0.5:
        steps.append(dict(a="reset"))
    elif use_reset:
        # the camera restarts in the middle of (or right after) an FFC period of 1..5 frames: the streams still differ
        # during the period, they are identical from the reset on
        for i in range(rng.randint(1, 5)):
            steps.append(fr(L + rng.choice([0, 3]), rng.choice([0, 2000, 9999]), L2))
        steps.append(dict(a="reset"))
    elif rng.random() < 0.4:
        # two FFC periods separated by one or two good frames (the streams still differ in those); identical from the
        # first affected frame of the second period on
        for i in range(rng.randint(1, 3)):
            steps.append(fr(L + rng.choice([0, 3]), rng.choice([0, 2000, 9999]), L2))
        for i in range(rng.choice([1, 1, 2])):
            steps.append(fr(L, rng.choice([10000, 10001, 60000]), L2))
        for i in range(rng.randint(1, 3)):
            steps.append(fr(L + rng.choice([0, 3]), rng.choice([0, 2000, 9999])))
    else:
        for i in range(nper):
            steps.append(fr(L + rng.choice([0, 3]), rng.choice([0, 2000, 9999])))
    for i in range(npost):
        steps.append(fr(L + rng.choice([0, 1, 2]), 60000 if i else rng.choice([10000, 10001, 60000])))
    return dict(cfg=c, kind="history", steps=steps)


def build_scripts(ctx, prop, tier):
    rng = ctx.sub_rng("fam_detect.1")
    scripts = []
    n = 120 if tier == "quick" else 2500
    if prop == "C09":
        n = 2 * n
    for i in range(n):
        if prop == "C07":
            c = rand_cfg(rng, dyn=False)
            scripts.append(dict(cfg=c, kind="", steps=gen_stream(rng, c, rng.randint(8, 40), ffc=False)))
        elif prop == "C08" and i % 12 == 5:
            # edge-pixels of half the smaller frame dimension or more: every pixel is border, nothing may ever be detected
            # whatever the two streams hold (fixed threshold: no background statistics over an empty interior)
            c = rand_cfg(rng, dyn=False)
            c["Tmin"], c["Tmax"] = 0, 0
            m = min(c["W"], c["H"])
            c["Edge"], c["Cnt"] = rng.randint((m + 1) // 2, m - 1), 1
            st, T = [], c["T"]
            for k in range(rng.randint(8, 25)):
                mk = lambda: [[max(0, min(65535, T + rng.choice([-50, 0, 1, 400, 1500, 1500 + c["Delta"] + 1, 20000]))) for x in range(c["W"])]
                              for y in range(c["H"])]
                st.append(dict(a="frame", pix=mk(), pix2=mk(), ffcAge=60000))
            scripts.append(dict(cfg=c, kind="border", steps=st))
        elif prop == "C08":
            dyn = rng.random() < 0.5
            c = rand_cfg(rng, dyn=dyn)
            if c["Edge"] == 0 and (dyn or rng.random() < 0.5):
                c["Edge"] = 1; c["W"] = max(c["W"], 3); c["H"] = max(c["H"], 3)
                c["Cnt"] = min(c["Cnt"], len(interior(c["W"], c["H"], 1)))
            if not dyn and rng.random() < 0.5:
                c["Preview"] = rng.choice([0, 0, 1])      # few background frames needed before a threshold could be recomputed
            st = gen_stream(rng, c, rng.randint(8, 30), ffc=rng.random() < (0.3 if dyn else 0.6))
            if dyn or rng.random() < 0.5:
                pair_border(rng, st, c); kind = "border"
            else:
                pair_cold(rng, st, c); kind = "cold"
            scripts.append(dict(cfg=c, kind=kind, steps=st))
        elif prop == "C09" and i % 5 < 2:
            scripts.append((gen_across(rng, early=(i % 20 == 6)) if i % 10 else gen_weight_memory(rng)))
        elif prop == "C09":
            c = rand_cfg(rng, dyn=rng.random() < 0.4)
            if rng.random() < 0.6:
                c["Gap"] = rng.choice([2, 3, 3])
            st = gen_stream(rng, c, rng.randint(10, 40), ffc=True)
            if rng.random() < 0.6:
                pair_history(rng, st, c); kind = "history"
            else:
                kind = ""
            scripts.append(dict(cfg=c, kind=kind, steps=st))
        else:  # C15
            c = rand_cfg(rng, dyn=True)
            scripts.append(dict(cfg=c, kind="", steps=gen_stream(rng, c, rng.randint(8, 40), ffc=rng.random() < 0.6)))
    # targeted additions with streams of their own (the scripts above stay what they were)
    if prop == "C09":
        xr = ctx.sub_rng("detect.stale-diff")
        scripts += [gen_stale_diff(xr) for _ in range(n // 20)]
    if prop == "C15":
        xr = ctx.sub_rng("detect.power-on")
        for _ in range(n // 10):
            c = rand_cfg(xr, dyn=True)
            scripts.append(dict(cfg=c, kind="", steps=gen_boot(xr, c)))
    return scripts


def simulate_scripts(ctx, prop, tier):
    """behaviours of the design model replayed on the real detector (4x3 frames)"""
    d = ctx.tlc_dir("sim", None)
    open(os.path.join(d, "DC.tla"), "w").write(BASE_TLA % "DetReplay")
    fixed = prop in ("C07", "C08")
    consts = dict(W=4, H=3, E=1, Vals=({9, 10, 12, 13} if fixed else {8, 11, 14}), BorderVal=50, MaxLen=12,
                  WithFFC=not fixed, MaxResets=3, Cfgs="<- " + ("CfgsFixed" if fixed else "CfgsDyn"))
    num = 80 if tier == "quick" else 1500
    r = ctx.tlc("sim", "DC", mkcfg(init="RInit", next_="RNext", constants=consts), workers=1,
                args=["-simulate", "file=sim,num=%d" % num, "-depth", "30", "-seed", str(ctx.seed)],
                timeout=600, heap="2g")
    behs = vlib.parse_simulate(r["dir"], "sim", evvar="sc")
    out = []
    for b in behs:
        cfg = None
        steps = []
        for e in b:
            if e["a"] == "reset":
                steps.append(dict(a="reset"))
            else:
                cfg = e["cfg"]
                steps.append(dict(a="frame", pix=e["pix"], ffcAge=5000 if e["aff"] else 60000))
        if cfg and steps:
            c = dict(W=cfg["w"], H=cfg["h"], Edge=cfg["edge"], T=cfg["T"], Delta=cfg["delta"], Cnt=cfg["cnt"], Gap=cfg["gap"],
                     One=cfg["one"], Warmer=cfg["warmer"], Dyn=cfg["dyn"], Tmin=cfg["tmin"], Tmax=cfg["tmax"],
                     Preview=cfg["preview"])
            out.append(dict(cfg=c, kind="", steps=steps, origin="simulate"))
    return out


def drive(ctx, scripts, name="trace"):
    binm = ctx.go_test_build("./motion", "motion.test")
    inp = ctx.path("run", name + ".json")
    json.dump(dict(scripts=[dict(cfg=s["cfg"], kind=s["kind"], steps=s["steps"]) for s in scripts]), open(inp, "w"))
    outp = ctx.path("run", name + ".ndjson")
    r = subprocess.run([binm, "-test.run", "^TestVerifDetector$"], env=dict(os.environ, VERIF_SCRIPT=inp, VERIF_OUT=outp),
                       capture_output=True, text=True, timeout=1200)
    if r.returncode != 0 or not os.path.exists(outp):
        raise vlib.Infra("detector driver failed: " + (r.stdout + r.stderr)[-3000:])
    return outp


def judge(ctx, trace, name="mon"):
    nev = sum(1 for _ in open(trace))
    r = ctx.tlc(name, "DetTrace", mkcfg(init="TInit", next_="TNext", post="Consumed"), workers=1,
                files=[(trace, "trace.ndjson")], timeout=3000, heap="6g")
    if r.get("distinct", 0) != nev + 1:
        raise vlib.Infra("DetTrace did not consume the trace (%s/%d)\n%s" % (r.get("distinct"), nev, vlib.tail_err(r["out"])))
    return vlib.parse_viol(r["out"]), nev


def conform(ctx, trace, name="conf"):
    nev = sum(1 for _ in open(trace))
    r = ctx.tlc(name, "DetConfTrace", mkcfg(init="TInit", next_="TNext"), workers=1,
                files=[(trace, "trace.ndjson")], timeout=3000, heap="6g", deque=True)
    depth = r.get("depth", 0)
    return (None if depth - 1 >= nev else depth), depth - 1


def run(ctx):
    prop, tier = ctx.prop, ctx.tier
    d, consts = design(ctx, prop, tier)
    scripts = simulate_scripts(ctx, prop, tier)
    nsim = len(scripts)
    scripts += [dict(s, origin="random") for s in build_scripts(ctx, prop, tier)]
    if prop == "C09":   # witness of the known finding F-C09-1 (must be reported as KNOWN-FINDING while it exists)
        scripts.append(json.load(open(os.path.join(vlib.VERIF, "findings", "C09-stale-threshold-after-reset.json")))["script"])
    trace = drive(ctx, scripts)
    events = vlib.read_ndjson(trace)
    viol, nev = judge(ctx, trace)
    owner, cur, starts = [], -1, {}
    for i, e in enumerate(events):
        if e["ev"] == "dcfg":
            cur = e["script"]; starts[cur] = i
        owner.append(cur)
    violations, others, seen = [], {}, set()
    for (line, tags) in viol:
        for t in tags:
            if t.startswith("ANY:"):     # a crash instead of a result violates whichever property is being checked
                t = prop + t[3:]
            if not t.startswith(prop + ":"):
                others[t] = others.get(t, 0) + 1
                continue
            si = owner[line - 1]
            key = t
            ob = events[line - 1]
            if t == "C09:depends-on-earlier-frames" and scripts[si]["cfg"]["Dyn"] and ob.get("thresh") != ob.get("thresh2") \
                    and any(e["ev"] == "dreset" for e in events[starts[si]:line - 1]):
                key = t + "[dynamic-threshold-stale-after-reset]"
            if key in seen:
                continue
            seen.add(key)
            rp = vlib.save_replay(ctx, t.replace(":", "_"), dict(family="detect", property=prop, clause=t, script=scripts[si],
                                  event=line - 1 - starts[si], observed=events[line - 1]))
            violations.append(dict(key=key, replay=rp, what="script %d (%s, kind=%s) event %d cfg=%s" % (
                si, scripts[si]["origin"], scripts[si]["kind"], line - 1 - starts[si], json.dumps(scripts[si]["cfg"]))))
    # the configuration path in front of the detector: generated config.toml -> ParseConfig + LoadMotionConfig(model)
    cfgpath = {}
    if prop in ("C07", "C08", "C15"):
        import fam_e2e
        rng2 = ctx.sub_rng("fam_detect.2")
        cfgs = []
        for i in range(40 if tier == "quick" else 400):
            T = rng2.choice([100, 2900, 30000])
            mset = {"dynamic-threshold": rng2.random() < 0.5, "temp-thresh": T, "delta-thresh": rng2.choice([1, 10, 50]),
                    "count-thresh": rng2.choice([1, 3]), "frame-compare-gap": rng2.choice([1, 2, 45]),
                    "use-one-diff-only": rng2.random() < 0.5, "trigger-frames": rng2.choice([0, 1, 2, 9]),
                    "warmer-only": rng2.random() < 0.5, "edge-pixels": rng2.choice([0, 0, 1, 2])}
            r = rng2.random()          # the optional limits, valid in every combination (0 = unset), also on the
            if r < 0.3:                # "wrong" side of temp-thresh (with a fixed threshold they are unused)
                mset["temp-thresh-min"] = rng2.choice([T - 100, T, T + 50, T + 1000])
            elif r < 0.55:
                mset["temp-thresh-max"] = rng2.choice([T + 300, T, T - 50, T - 90])
            elif r < 0.8:
                mset["temp-thresh-min"], mset["temp-thresh-max"] = rng2.choice([(T - 100, T + 300), (T + 100, T + 300), (T - 90, T - 50)])
            if rng2.random() < 0.3:   # only some keys set: the rest are the camera model's defaults, not compared
                for k in rng2.sample(sorted(mset), rng2.randint(1, 5)):
                    del mset[k]
            settings = dict(min=1, max=2, preview=1, const=False, throttle=False, motion=mset)
            model = rng2.choice(["lepton3", "lepton3.5", "boson"])
            # keys that are not set keep the camera model's defaults (go-config DefaultThermalMotion, a pinned dependency);
            # an unset limit is 0
            want = {"dynamic-threshold": True, "temp-thresh": 28000 if model == "lepton3.5" else 2900,
                    "delta-thresh": 200 if model == "lepton3.5" else 50, "count-thresh": 3, "frame-compare-gap": 45,
                    "use-one-diff-only": True, "trigger-frames": 2, "warmer-only": True, "edge-pixels": 1,
                    "temp-thresh-min": 0, "temp-thresh-max": 0}
            want.update(mset)
            cfgs.append(dict(Toml=fam_e2e.toml(settings), Model=model,
                             Set={k: (("true" if v else "false") if isinstance(v, bool) else str(v)) for k, v in want.items()}))
        binc = ctx.go_test_build("./cmd/thermal-recorder", "tr.test")
        inp, outp = ctx.path("run", "motioncfg.json"), ctx.path("run", "motioncfg.ndjson")
        json.dump(dict(configs=cfgs), open(inp, "w"))
        r = subprocess.run([binc, "-test.run", "^TestVerifMotionConfig$"], env=dict(os.environ, VERIF_SCRIPT=inp, VERIF_OUT=outp),
                           capture_output=True, text=True, timeout=600)
        if r.returncode != 0 or not os.path.exists(outp):
            raise vlib.Infra("motion config driver failed: " + (r.stdout + r.stderr)[-2500:])
        mev = vlib.read_ndjson(outp)
        if len(mev) != len(cfgs):
            raise vlib.Infra("motion config driver: %d results for %d configs" % (len(mev), len(cfgs)))
        mviol, _ = judge(ctx, outp, "motioncfgmon")
        for (line, tags) in mviol:
            for t in tags:
                if t.startswith("ANY:"):
                    t = prop + t[3:]
                if t.startswith(prop + ":") and t not in seen:
                    seen.add(t)
                    rp = vlib.save_replay(ctx, t.replace(":", "_"), dict(family="detect", property=prop, clause=t, config=cfgs[mev[line - 1]["i"]],
                                          observed=mev[line - 1]))
                    violations.append(dict(key=t, replay=rp, what=json.dumps(mev[line - 1])[:300]))
                elif not t.startswith(prop + ":"):
                    others[t] = others.get(t, 0) + 1
        cfgpath = dict(configs=len(cfgs), keys_compared=sum(len(e.get("pairs") or []) for e in mev))
    e2e_bad = {}
    if prop == "C07":
        # "gap frames earlier, or the earliest frame since start-up or the last camera reset": a bad frame is neither -
        # runMain with bad frames followed by a changed scene; files vs. the SystemTrace.tla prediction
        import fam_e2e
        bine = ctx.go_test_build("./cmd/thermal-recorder", "tr.test")
        bruns = fam_e2e.c13_runs(ctx, bine)
        for v in fam_e2e.judge_c11(ctx, bruns, bine):
            if "motion-files-differ" in v["key"] or "daemon-crashed" in v["key"]:
                key = "C07:e2e-detection-across-bad-frame-differs"
                if key not in seen:
                    seen.add(key)
                    violations.append(dict(v, key=key))
        e2e_bad = dict(runs=len(bruns), bad_frames=sum(1 for r in bruns if r["kind"] == "predict" for e in r["model_events"] if e["ev"] == "bad"))
    raw_level = {}
    if prop == "C08":
        # the parser in front of the detector: border zeros (the one value the parsers single out) must not decide
        # whether a frame is accepted; judged by RawFrame.tla on the bytes fed to the parser the daemon selects
        import fam_proc
        rv, raw_level = fam_proc.raw_frames(ctx, tier, prop="C08")
        for v in rv:
            if v["key"].startswith("C08:"):
                violations.append(v)
            else:
                others[v["key"]] = others.get(v["key"], 0) + 1
    proc_level = {}
    if prop == "C09":
        # the 'clear' path as the daemon takes it: MotionProcessor.Reset (which also has to stop the recording, possibly
        # with a failing stop) in front of the real detector; whatever the next frame contains, it has nothing to be
        # compared with
        import fam_proc
        pscripts = [fam_proc.gen_random_script(ctx.sub_rng("fam_detect.3"), "C12") for _ in range(150 if tier == "quick" else 2500)]
        for sc in pscripts:      # make resets frequent and let the scene change right after them
            st2 = []
            for st in sc["steps"]:
                st2.append(st)
                if st["a"] == "frame" and ctx.sub_rng("fam_detect.4").random() < 0.08:
                    st2.append(dict(a="reset", mStop=ctx.sub_rng("fam_detect.5").random() < 0.5))
                    st2.append(dict(a="frame", motion=True, win=True, disk=True))
            sc["steps"] = st2
        ptrace = fam_proc.drive(ctx, pscripts, "c09proc")
        pviol, pnev = fam_proc.judge(ctx, ptrace, "c09procmon")
        pevents = vlib.read_ndjson(ptrace)
        for (line, tags) in pviol:
            for t in tags:
                if t.startswith("C09:") and t not in seen:
                    seen.add(t)
                    rp = vlib.save_replay(ctx, t.replace(":", "_"), dict(family="proc", property="C09", clause=t, observed=pevents[line - 1]))
                    violations.append(dict(key=t, replay=rp, what="processor-level event %s" % json.dumps(pevents[line - 1])[:200]))
        proc_level = dict(events=pnev, resets=sum(1 for e in pevents if e.get("ev") == "reset"))
    chain_stats = {}
    if prop in ("C07", "C09", "C15"):
        # the detector as the real MotionProcessor drives it (Process / Reset, with storage stop failures on resets that
        # interrupt a recording), optionally through the real ThrottledRecorder (cuts and mid-trigger restarts).
        # C15 last clause: the background and threshold stored with a recording are the ones in force at its trigger.
        rng = ctx.sub_rng("fam_detect.6")
        cs = []
        for i in range(60 if tier == "quick" else 1200):
            c = rand_cfg(rng, dyn=(prop == "C15" or (prop == "C09" and rng.random() < 0.5)))
            if prop == "C15" or rng.random() < 0.5:
                c["Cnt"], c["Gap"], c["One"] = 1, 1, True
            fps = rng.choice([1, 2, 3])
            sc = dict(cfg=c, fps=fps, preview_secs=rng.choice([0, 1]), min_secs=rng.choice([0, 1, 2]), max_secs=rng.choice([2, 3, 5]),
                      trig=rng.choice([0, 1, 2]), steps=gen_stream(rng, c, rng.randint(25, 70), ffc=rng.random() < 0.3))
            if sc["preview_secs"] * fps + sc["trig"] < 1:
                sc["trig"] = 1
            if rng.random() < 0.6:
                sc["throttle"] = dict(bucket=rng.choice([1, 2, 3]), k=rng.choice([50, 300, 1000]), frame_ms=rng.choice([100, 500, 1000]))
            if i % 3 == 0:
                # sustained motion through a slowly refilling throttle: the file is cut when the bucket is empty and
                # restarted in the middle of the same trigger; the scene level (hence background and threshold) drifts
                c["Edge"] = min(c["Edge"], 1); c["Delta"] = 30; c["Cnt"] = 1
                sc.update(preview_secs=rng.choice([0, 1]), min_secs=1, max_secs=rng.choice([20, 40]), trig=1)
                fr = rng.choice([400, 500])
                sc["throttle"] = dict(bucket=rng.choice([1, 2]), k=int(fr * rng.choice([1.4, 1.8, 2.5])), frame_ms=fr)
                steps, L = [], c["T"] + 500
                for k in range(rng.randint(50, 80)):
                    if k % 9 == 8:
                        L += rng.choice([-40, 25, 60])
                    pix = [[L for x in range(c["W"])] for y in range(c["H"])]
                    if k % 2 == 1 and k > 3:
                        for (y, x) in interior(c["W"], c["H"], c["Edge"])[:2]:
                            pix[y][x] = L + 1000
                    steps.append(dict(a="frame", pix=pix, ffcAge=60000))
                sc["steps"] = steps
            if prop in ("C07", "C09") and i % 5 == 2:
                sc = chain_ffc_in_recording(rng)
            # camera resets, also in the middle of recordings, whose StopRecording storage call may fail
            st2 = []
            for k, st in enumerate(sc["steps"]):
                if st["a"] == "reset":
                    st = dict(st, stopFail=rng.random() < 0.5)
                st2.append(st)
                if st["a"] == "frame" and k > 4 and rng.random() < (0.06 if i % 2 else 0.0):
                    st2.append(dict(a="reset", stopFail=rng.random() < 0.7))
            sc["steps"] = st2
            if prop == "C07" and i % 4 == 1 and sc.get("kind", "") == "":
                # a recording window that closes and re-opens in the middle of the stream: what the detector reports and
                # what it compares with does not depend on it
                sc["windowed"] = True
                a = rng.randint(2, max(3, len(st2) // 2))
                for st in st2[a:a + rng.randint(3, 15)]:
                    if st["a"] == "frame":
                        st["closed"] = True
            cs.append(sc)
        binm = ctx.go_test_build("./motion", "motion.test")
        inp, outp = ctx.path("run", "chain.json"), ctx.path("run", "chain.ndjson")
        json.dump(dict(scripts=cs), open(inp, "w"))
        r = subprocess.run([binm, "-test.run", "^TestVerifStartArgs$"], env=dict(os.environ, VERIF_SCRIPT=inp, VERIF_OUT=outp),
                           capture_output=True, text=True, timeout=1200)
        if r.returncode != 0 or not os.path.exists(outp):
            raise vlib.Infra("start-args driver failed: " + (r.stdout + r.stderr)[-3000:])
        cviol, cnev = judge(ctx, outp, "chainmon")
        cev = vlib.read_ndjson(outp)
        for (line, tags) in cviol:
            for t in tags:
                if t.startswith("ANY:"):
                    t = prop + t[3:]
                if t.startswith(prop + ":") and t not in seen:
                    seen.add(t)
                    e = cev[line - 1]
                    rp = vlib.save_replay(ctx, t.replace(":", "_"), dict(family="detect", property=prop, clause=t,
                                          observed={k: e[k] for k in e if k not in ("bg", "det_bg")}))
                    violations.append(dict(key=t, replay=rp, what=json.dumps({k: e[k] for k in e if k not in ("bg", "det_bg")})))
        chain_stats = dict(scripts=len(cs), starts_observed=sum(1 for e in cev if e["ev"] == "sstart"),
                           frames=sum(1 for e in cev if e["ev"] == "dframe"),
                           resets_while_recording=sum(1 for e in cev if e["ev"] == "dreset" and e.get("while_recording")),
                           resets_with_failed_stop=sum(1 for e in cev if e["ev"] == "dreset" and e.get("stop_failed")),
                           through_throttle=sum(1 for s in cs if "throttle" in s),
                           with_recording_window=sum(1 for s in cs if s.get("windowed")))
    rej, acc = conform(ctx, trace)
    conf = dict(events_accepted=acc, rejected_at=None)
    if rej is not None:
        si = owner[rej - 1] if rej - 1 < len(owner) else None
        conf["rejected_at"] = dict(line=rej, script=si, cfg=scripts[si]["cfg"] if si is not None else None)
        print("DRIFT: real trace rejected by Detector.tla at line %d (script %s) (not a verdict)" % (rej, si))
        ctx.notes.append("conformance rejected at line %d" % rej)
    frames = [e for e in events if e["ev"] == "dframe"]
    hits = dict(frames=len(frames), motion=sum(1 for e in frames if e["motion"]), affected=sum(1 for e in frames if e["aff"]),
                resets=sum(1 for e in events if e["ev"] == "dreset"), paired=sum(1 for e in frames if "pix2" in e),
                threshold_changes=sum(1 for i in range(1, len(frames)) if frames[i]["thresh"] != frames[i - 1]["thresh"]))
    distinct = len({json.dumps([s["cfg"], s["steps"]], sort_keys=True) for s in scripts})
    sample = dict(cfg=scripts[0]["cfg"], steps=scripts[0]["steps"][:3], trace=events[:3])
    coverage = dict(states=d.get("distinct", 0), transitions=d.get("generated", 0),
                    traces_validated_against_impl=len(scripts), samples=[sample], exhaustive=True,
                    design={k: (sorted(v) if isinstance(v, set) else v) for k, v in consts.items()},
                    simulate_scripts=nsim, random_scripts=len(scripts) - nsim, events_judged=nev, observed=hits,
                    evaluations=len(scripts), distinct_nontrivial=distinct,
                    rule="TLC -simulate behaviours of the design model (4x3) + seeded boundary-biased streams 3x3..8x6 "
                         "(values at T, T+-1, delta, delta+-1, count-1/count/count+1 pixels, 0/65535 borders, FFC periods, "
                         "resets, paired streams); distinct by (cfg, steps)",
                    conformance=conf, clauses_of_other_properties_fired=others, processor_level_resets=proc_level, raw_parser_frames=raw_level, config_path=cfgpath, e2e_bad_frame_runs=e2e_bad,
                    recording_start_arguments=chain_stats)
    return vlib.finish(ctx, violations, coverage, ASSUME)


def replay(ctx, path):
    rp = json.load(open(path))
    trace = drive(ctx, [rp["script"]], "replay")
    viol, _ = judge(ctx, trace, "replaymon")
    tags = sorted({t for (_, ts) in viol for t in ts if t.startswith(ctx.prop + ":")})
    if tags:
        print("VIOLATION property=%s replay=%s" % (ctx.prop, path)); print("  clauses:", ", ".join(tags)); return 1
    print("replay: no clause fired"); return 0
