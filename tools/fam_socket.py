"""Family "socket": C14 — headers/headerinfo.go, handleConn's read loop, leptond's sender; spec FrameSocket.tla."""
import base64
import json
import os
import re
import subprocess

import vlib
import fam_e2e
from vlib import cfg as mkcfg

ASSUME = [
    "header encoder = gopkg.in/yaml.v1 map marshal + blank line, as in cmd/leptond sendCameraSpecs; camera descriptions are "
    "single-line printable strings and non-negative integers",
    "delivery is observed end to end: runMain/handleConn on a real unix socket, the byte stream written in seeded chunk "
    "sizes, the continuous recorder's files give the frames that reached the processor (SystemTrace.tla prediction)",
    "frames never begin with the marker bytes except in the witness of known finding F-C14-1 (the protocol has no escaping)",
]
FSX = '''---- MODULE FSX ----
EXTENDS FrameSocket
MarkerVal == <<1, 1>>
HL == {<< <<1>> >>, << <<1, 9, 2>>, <<2>> >>}
====
'''
STRS = ["flir", "lepton3", "lepton3.5", "boson", "1.2.3", "1.2", "0", "true", "null", "~", "0x10", "a: b", " lead", "trail ",
        "#hash", "'q", '"dq', "ünï", "x" * 200, "-", "[1]", "{a}", "yes", "1e3", "12:30", "@at", "%pc", "*star", "&amp", "!bang", "|pipe", ">gt"]


def gen_header(rng):
    w, h = rng.choice([(160, 120), (4, 3), (320, 256), (1, 1), (640, 512)])
    return dict(ResX=w, ResY=h, FPS=rng.choice([1, 9, 60]), FrameSize=rng.choice([2 * w * h, 640 + 2 * w * h]),
                Model=rng.choice(STRS), Brand=rng.choice(STRS), CameraSerial=rng.choice([0, 1, 123456, 2 ** 31 - 1, 2 ** 40]),
                Firmware=rng.choice(STRS))


def run(ctx):
    tier, rng = ctx.tier, ctx.sub_rng("fam_socket.1")
    # ---------------- design
    d = ctx.tlc_dir("design", None)
    open(os.path.join(d, "FSX.tla"), "w").write(FSX)
    consts = dict(Data={1, 2}, Marker="<- MarkerVal", FrameLen=3, MaxItems=2 if tier == "quick" else 3, HeaderLines="<- HL", AvoidMarker=True)
    r = ctx.tlc("design", "FSX", mkcfg(spec="Spec", constants=consts,
                                      invariants=["InOrderOnce", "HeaderExact", "NoOverRead", "AllDelivered"], properties=["Liveness"]),
                timeout=3000, heap="6g")
    if not r["ok"]:
        raise vlib.Infra("FrameSocket design check failed:\n" + vlib.tail_err(r["out"], 60))
    design = r
    events = []
    # ---------------- headers through ReadHeaderInfo
    drv = ctx.go_build("./zzverif/hdrdrv", "hdrdrv")
    n = 80 if tier == "quick" else 1500
    scripts = []
    for i in range(n):
        rest = "".join(rng.choice(["\n", " ", "x", "clear", "\x00", "R", ":"]) for _ in range(rng.randint(0, 30)))
        scripts.append(dict(header=gen_header(rng), sizes=rng.choice([[], [1], [2, 1], [3, 7, 1], [64]]), rest=rest,
                            blank="\n"))
    inp = ctx.path("run", "hdr.json")
    json.dump(dict(scripts=scripts), open(inp, "w"))
    pr = subprocess.run([drv, inp], capture_output=True, text=True, timeout=600)
    if pr.returncode != 0:
        raise vlib.Infra("hdrdrv failed: " + pr.stderr[-2000:])
    hev = [json.loads(x) for x in pr.stdout.splitlines() if x.strip()]
    events += hev
    # ---------------- constants of the binaries
    for pkg in ["thermal-recorder", "leptond", "thermal-writer"]:
        b = ctx.go_test_build("./cmd/" + pkg, pkg + ".test")
        o = ctx.path("run", pkg + ".consts.json")
        pr = subprocess.run([b, "-test.run", "^TestVerifConsts$"], env=dict(os.environ, VERIF_OUT=o), capture_output=True, text=True, timeout=120)
        if pr.returncode != 0 or not os.path.exists(o):
            raise vlib.Infra("consts of %s: %s" % (pkg, (pr.stdout + pr.stderr)[-1500:]))
        events.append(json.load(open(o)))
    # ---------------- end to end over a real unix socket
    binp = ctx.go_test_build("./cmd/thermal-recorder", "tr.test")
    runs = []
    nruns = 5 if tier == "quick" else 50
    for k in range(nruns):
        settings, fps = fam_e2e.gen_settings(rng)
        settings["const"] = True
        w, h = rng.choice([(4, 3), (6, 5)])
        model = rng.choice(["lepton3", "boson", "lepton3.5"])
        conns, mev, fid, nclear = [], [], 1, 0
        for c in range(rng.choice([1, 2])):
            conn, ev, fid = fam_e2e.build_conn(rng, settings, w, h, fps, model, fid, rng.randint(25, 80), with_clear=True, clear_runs=True, burst_after_clear=True, rm_temps=(2 if k % 2 == 0 else 0),
                                               with_bad=(k % 2 == 1))
            conn["dbus"] = [dict(at_byte=10 ** 9, member="CameraInfo")]
            conns.append(conn)
            mev += ev
            nclear += sum(1 for e in ev if e["ev"] == "clear")
        if k % 2 == 0:   # a connection that dies inside the header
            hc = dict(header=conns[0]["header"], payload="", cuts=[], header_cut=rng.randint(1, 60), settle_ms=50)
            conns.insert(0, hc)
        scen = dict(config=fam_e2e.toml(settings), prefiles=[], conns=conns)
        try:
            evs = fam_e2e.run_e2e(ctx, binp, scen, "c14_%d" % k)
        except fam_e2e.DaemonCrash as dc:
            runs.append(dict(kind="crash", settings=settings, fps=fps, model=model, msg=dc.msg, result=dict(files=[], constant=[])))
            continue
        last = [e for e in evs if e["ev"] == "e2e-conn-done"][-1]
        end = [e for e in evs if e["ev"] == "e2e-end"][-1]
        runs.append(dict(kind="predict", settings=settings, fps=fps, model=model, model_events=mev, result=last, scen=scen,
                         expected_motion={}, bus=end["bus"], end=end))
        events.append(dict(ev="e2eclears", sent=nclear, seen=end["clears"]))
        for e in evs:
            if e["ev"] == "e2e-dbus" and e["member"] == "CameraInfo" and "reply" in e:
                sent = conns[-1]["header"] if e["conn"] == len(conns) - 1 else conns[e["conn"]]["header"]
                events.append(dict(ev="e2ehdr", sent={k2: str(v) for k2, v in sent.items()}, seen=e["reply"]["map"]))
            if e["ev"] == "e2e-headercut":
                events.append(dict(ev="e2ecut", reading=e["reading"] > 0 and e["conn"] == 0, ended=e["ended"] >= 1))
    # ---------------- two dozen connections within one daemon run (frames of every one of them delivered once, in order)
    runs += fam_e2e.many_reconnects_run(ctx, binp)
    # ---------------- beyond the listed properties: the daemon's connection lifecycle (Lifecycle.tla), a NOTE only
    lc = dict(design=None, trace=None)
    try:
        ld = ctx.tlc("lifecycle_design", "Lifecycle",
                     mkcfg(spec="Spec", constants=dict(FpsSet={1, 2, 3}, MaxConn=3, MaxFrames=46, Wrap=1048576, Compounding=False),
                           invariants=["TypeOK", "IntervalsFromHeader", "ProgressLines", "NeverCrashes"], properties=["ListensAgain"], deadlock=False),
                     timeout=600, heap="2g")
        lu = ctx.tlc("lifecycle_compounding", "Lifecycle",
                     mkcfg(spec="Spec", constants=dict(FpsSet={4}, MaxConn=4, MaxFrames=3, Wrap=256, Compounding=True),
                           invariants=["NeverCrashes"], deadlock=False), timeout=300, heap="2g")
        lc["design"] = dict(ok=ld["ok"], distinct=ld.get("distinct"), compounding_variant_crashes=not lu["ok"])
        lc["trace"] = fam_e2e.judge_lifecycle(ctx, runs)
        if lc["trace"].get("accepted") is False or not ld["ok"]:
            print("NOTE: the daemon's connection lifecycle differs from Lifecycle.tla (not one of the listed properties): trace rejected "
                  "after %s events at %s, design ok=%s" % (lc["trace"].get("rejected_after"), json.dumps(lc["trace"].get("rejected_event")), ld["ok"]))
            ctx.notes.append("Lifecycle: %s" % json.dumps(lc["trace"])[:300])
    except vlib.Infra as e:
        lc["note"] = "lifecycle runs skipped: %s" % str(e)[:200]
    # ---------------- known finding F-C14-1: a frame that begins with the marker bytes
    w, h, fps = 4, 3, 2
    settings = dict(min=1, max=2, preview=1, const=True, throttle=False, motion=dict(fam_e2e.FIXED_MOTION, **{"trigger-frames": 1}))
    payload, mev, pace = bytearray(), [dict(ev="conn", N=1 * fps + 1, TrigF=1, MinF=fps, MaxF=2 * fps, ConstOn=True, firstid=1, newrun=True)], []
    for i in range(1, 13):
        fr = bytearray(fam_e2e.boson_frame(w, h, i, 200))
        if i == 6:
            fr[0:5] = b"clear"      # pixels 0x6c63, 0x6165 and the low byte 0x72 of the third
        payload += fr
        pace.append(len(payload))
        mev.append(dict(ev="frame", id=(0x6c63 if i == 6 else i), motion=False))
    wit = dict(config=fam_e2e.toml(settings), prefiles=[], conns=[dict(
        header=dict(ResX=w, ResY=h, FPS=fps, FrameSize=2 * w * h, Model="boson", Brand="flir", CameraSerial=1, Firmware="1.0.0"),
        payload=base64.b64encode(bytes(payload)).decode(), cuts=[], settle_ms=50, pace_at=pace, pace_ms=5)])
    evs = fam_e2e.run_e2e(ctx, binp, wit, "c14_witness")
    last = [e for e in evs if e["ev"] == "e2e-conn-done"][-1]
    got = [f["ids"] for f in last["constant"] if f["kind"] == "final"]
    flat = [x for ids in got for x in ids]
    witness_violates = flat[:6] != [1, 2, 3, 4, 5, 0x6c63]
    # ---------------- TLC: observer over header/const events, SystemTrace over the streams
    tp = ctx.path("run", "sock.ndjson")
    vlib.write_ndjson(tp, events)
    t = ctx.tlc("sockmon", "SockTrace", mkcfg(init="TInit", next_="TNext", post="Consumed"), workers=1,
                files=[(tp, "trace.ndjson")], timeout=1800, heap="4g")
    if t.get("distinct", 0) != len(events) + 1:
        raise vlib.Infra("SockTrace did not consume the trace\n" + vlib.tail_err(t["out"]))
    violations, seen = [], set()
    for (line, tags) in vlib.parse_viol(t["out"]):
        for tg in tags:
            if tg in seen:
                continue
            seen.add(tg)
            e = events[line - 1]
            rp = vlib.save_replay(ctx, tg.replace(":", "_"), dict(family="socket", property="C14", clause=tg, event=e))
            violations.append(dict(key=tg, replay=rp, what=json.dumps(e)[:300]))
    for v in fam_e2e.judge_c11(ctx, runs, binp):
        key = v["key"].replace("C11:settings-do-not-shape-files", "C14:frames-not-delivered-once-in-order").replace("C11:", "C14:")
        if key.startswith("C14:e2e-") or not key.startswith("C14:"):
            continue       # header content of files is C11's business, bad-frame reporting C13's
        if key not in seen:
            seen.add(key)
            violations.append(dict(key=key, replay=v["replay"], what=v["what"]))
    # ---------------- "restarts detection": the call the frame loop makes at a marker (MotionProcessor.Reset) on the
    # real processor + detector, streams that go on in a different scene after it; judged by the detector monitor
    # (DetTrace.tla): with a fixed threshold everything it says about the frames after the reset, with the dynamic one
    # the re-seeding of the background (the stale threshold after a reset is the recorded finding F-C09-1 of C09)
    import fam_detect
    drng = ctx.sub_rng("socket.restart-detection")
    cs = []
    for i in range(40 if tier == "quick" else 500):
        dyn = (i % 2 == 0)
        c = fam_detect.rand_cfg(drng, dyn=dyn)
        if not dyn:
            c["Tmin"], c["Tmax"] = 0, 0
        fps = drng.choice([1, 2, 3])
        steps = fam_detect.gen_stream(drng, c, drng.randint(6, 20), ffc=False, resets=False)
        for k in range(drng.randint(1, 2)):
            steps.append(dict(a="reset", stopFail=False))
            steps += fam_detect.gen_stream(drng, c, drng.randint(6, 20), ffc=False, resets=False)
        cs.append(dict(cfg=c, fps=fps, preview_secs=drng.choice([0, 1]), min_secs=drng.choice([1, 2]), max_secs=drng.choice([3, 5]),
                       trig=drng.choice([1, 2]), steps=steps))
    binm = ctx.go_test_build("./motion", "motion.test")
    cinp, coutp = ctx.path("run", "restart.json"), ctx.path("run", "restart.ndjson")
    json.dump(dict(scripts=cs), open(cinp, "w"))
    rr = subprocess.run([binm, "-test.run", "^TestVerifStartArgs$"], env=dict(os.environ, VERIF_SCRIPT=cinp, VERIF_OUT=coutp),
                        capture_output=True, text=True, timeout=1200)
    if rr.returncode != 0 or not os.path.exists(coutp):
        raise vlib.Infra("start-args driver failed: " + (rr.stdout + rr.stderr)[-3000:])
    cviol, cnev = fam_detect.judge(ctx, coutp, "restartmon")
    cev = vlib.read_ndjson(coutp)
    after_reset, dynscript, a, dflag = [], [], False, False
    for e in cev:
        if e["ev"] == "dcfg":
            a, dflag = False, bool(e.get("dyn"))
        elif e["ev"] == "dreset":
            a = True
        after_reset.append(a); dynscript.append(dflag)
    nafter = sum(1 for i, e in enumerate(cev) if e["ev"] == "dframe" and after_reset[i])
    for (line, tags) in cviol:
        if not after_reset[line - 1]:
            continue
        for tg in tags:
            if (tg == "C15:not-reseeded") if dynscript[line - 1] else tg.split(":")[0] in ("C07", "C09"):
                key = "C14:marker-does-not-restart-detection[%s]" % tg.split(":")[1]
                if key not in seen:
                    seen.add(key)
                    e = cev[line - 1]
                    rp = vlib.save_replay(ctx, key.replace(":", "_"), dict(family="socket", property="C14", clause=key,
                                          observed={k: e[k] for k in e if k not in ("bg", "det_bg")}))
                    violations.append(dict(key=key, replay=rp, what=json.dumps({k: e[k] for k in e if k not in ("bg", "det_bg")})[:300]))
    if witness_violates:
        rp = vlib.save_replay(ctx, "marker_in_frame", dict(family="socket", property="C14", clause="frame-begins-with-marker",
                              scenario=wit, continuous_files=got))
        violations.append(dict(key="C14:frames-not-delivered-once-in-order[frame-begins-with-marker]", replay=rp,
                               what="boson frame 6 begins with the bytes 'clear': delivered ids %s" % flat[:14]))
    hdrs = [e for e in hev if e["ev"] == "hdr"]
    cuts = sum(e["len"] for e in hev if e["ev"] == "hdrcut")
    coverage = dict(states=design.get("distinct", 0), transitions=design.get("generated", 0),
                    traces_validated_against_impl=len(hdrs) + len(runs) + 1,
                    samples=[dict(header=scripts[0]["header"], encoded=hdrs[0].get("text"), parsed=hdrs[0].get("parsed"))],
                    exhaustive=True, design={k: (sorted(v) if isinstance(v, set) else v) for k, v in consts.items()},
                    headers_round_tripped=len(hdrs), connection_lifecycle=lc, restart_detection_scripts=len(cs), restart_detection_frames_after_reset=nafter, truncation_points=cuts, e2e_runs=len(runs),
                    e2e_frames=sum(1 for rn in runs if rn["kind"] == "predict" for e in rn["model_events"] if e["ev"] == "frame"),
                    e2e_markers=sum(1 for rn in runs if rn["kind"] == "predict" for e in rn["model_events"] if e["ev"] == "clear"),
                    evaluations=len(hdrs) + cuts + len(runs), distinct_nontrivial=len({json.dumps(s, sort_keys=True) for s in scripts}) + len(runs),
                    rule="generated camera descriptions x read segmentations x every truncation point; e2e streams with random "
                         "chunking (1 byte .. several frames), markers, bad frames, reconnects, header cut short")
    return vlib.finish(ctx, violations, coverage, ASSUME)


def replay(ctx, path):
    print("replay: re-run ./check C14 (streams are regenerated from the seed)")
    return run(ctx)
