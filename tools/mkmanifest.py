#!/usr/bin/env python3
"""Regenerates /verif/MANIFEST.json from the table below (single source of truth)."""
import json, os
V = os.path.dirname(os.path.dirname(os.path.abspath(__file__)))

PROC_NOTE = ("Trusted: TLC; the Go driver's mock sinks and the frame-id-in-pixel encoding; the motion bits come from the real "
             "detector; storage is mocked here (real CPTV recorder is bound by the files family). Verdicts come only from "
             "traces of the real code; design-model errors are exit 2.")
CHECKS = {
 "C01": dict(fam="proc", ref="4.1", text="TLC checks exhaustively that every behaviour of the code-shaped model Processor.tla (all small configurations, refusals, bad frames, resets) keeps motion recordings gap-free, duplicate-free and tiling (monitor ProcMon C01); a transition cover of the model's state graph, TLC -simulate behaviours and seeded boundary-biased scripts are executed on the real MotionProcessor+detector and the recorded sink traces are judged by the same TLA+ monitor in TLC and validated as behaviours of the model."),
 "C02": dict(fam="proc", ref="4.1", text="Same pipeline as C01; monitor C02 demands at every successful start exactly the ids max(1, end of previous recording+1, t-(N-1)) .. t on the motion sink, with N computed by the harness from preview-secs*fps+trigger-frames."),
 "C03": dict(fam="proc", ref="4.1", text="Same pipeline; monitor C03 demands a stop exactly when frames-since-trigger reaches min(last motion index + MinF - 1, MaxF), MinF/MaxF computed by the harness from min/max-secs*fps for fps in {1,2,3,9}."),
 "C04": dict(fam="proc", ref="4.1", text="Same pipeline; monitor C04 is the three-valued iff between a StartRecording call and (no recording, motion run >= trigger-frames, window open per the declarative half-open interval evaluated by TLC on the injected clock, disk check ok)."),
 "C12": dict(fam="proc", ref="4.2", text="Same pipeline with failure injection on every sink call that can change state (model: FaultLevel 1; real code: scripted mock failures): per-sink protocol automaton, no panic, and C03/C04 re-armed after the sink is closed again."),
 "C13": dict(fam="proc", ref="4.2", text="Same pipeline with bad frames (raw Lepton frames with a zero interior pixel carrying a poison id) at every model state: reported as BadFrameErr, never written to any sink, never in a pre-trigger run (C02 over accepted ids), ends the open recording."),
 "C17": dict(fam="proc", ref="4.2", text="Same pipeline with the continuous sink and test-recording requests: every accepted frame once and in order on the continuous sink, files of MaxF+1, test recording of exactly 21 consecutive frames from the next frame, and the motion-sink projection equal to that of a shadow processor without continuous sink and requests."),
 "C19": dict(fam="ring", ref="4.3", note="Trusted: TLC; frames tagged in pixels; API usage pattern (fill Current, then Move).", text="TLC proves for every capacity <= 5 (6 thorough) and every operation sequence within the tag bound that the code-shaped index arithmetic of FrameLoop.tla equals the declarative history/oldest/recent operators; every edge of the dumped graphs (cap 1..3/5) plus random sequences up to capacity 64 are executed on the real FrameLoop and every query answer is compared by TLC with the declarative operators."),
 "C20": dict(fam="loglim", ref="4.10", note="Trusted: TLC; injected clock via the unexported nowFunc (in-package driver); standard logger captured.", text="TLC checks the code-shaped limiter against the declarative rule (printed iff not (same as last printed and < interval)) as an action property for all message/time sequences in the bound; transition cover + seeded histories run on the real LogLimiter with an injected clock and the captured output is judged by the TLA+ rule; the recorder's one-minute constant is read in-package."),
 "C05": dict(fam="throttle", ref="4.5", note="Trusted: TLC; the injected ratelimit.Clock (ms); K integral so the library's float fill interval cannot move a tick; main.go wiring of the throttle is bound in the files family.", text="TLC checks exhaustively (both library variants, relative time, clock steps around the refill boundary) that the code-shaped Throttle.tla never exceeds the window bound (count - Cap - 2)*K*100 <= span*101, carried as a max-subarray potential in the observer ThrMon; the same observer judges traces of the real ThrottledRecorder driven by a transition cover, seeded schedules and the real MotionProcessor under continuous motion with a scripted clock."),
 "C06": dict(fam="throttle", ref="4.5", note="Trusted: TLC; injected clock; budget bounds lo (exact) / hi (ratelimit v1.0.1 stale-tick accounting) so that either library behaviour is accepted.", text="Same pipeline as C05; observer clauses: pairing towards the base recorder, forwarding unchanged when lo suffices, no forwarding/restart when hi does not, cut files >= minimum length, exactly one event per suppressed start or cut, start failures propagated; real traces additionally validated as behaviours of Throttle.tla."),
 "C07": dict(fam="detect", ref="4.4", note='Trusted: TLC; in-package driver reading tempThresh/background after each Detect (build tag verif); harness-written telemetry; float deviations named in Detector.tla (+-1 on the mean, weight ties).', text="TLC checks for all 16 mode/gap/count configurations and all frame sequences over a boundary value set (4x3 frames, resets) that the code-shaped Detector.tla reports motion exactly per the declarative rule; TLC -simulate behaviours of the model and seeded boundary-biased streams (3x3..8x6, values at T, T+-1, delta+-1, count-1/count/count+1 pixels) run on the real detector, and TLC evaluates the declarative rule on the logged pixels and validates each Detect as a step of Detector.tla."),
 "C08": dict(fam="detect", ref="4.4", note='Trusted: TLC; in-package driver reading tempThresh/background after each Detect (build tag verif); harness-written telemetry; float deviations named in Detector.tla (+-1 on the mean, weight ties).', text="Paired streams through two real detectors in lock-step, differing only in border pixels (any values incl. 0/65535, fixed and dynamic threshold) or only below temp-thresh (fixed): TLC checks the pairing precondition on the logged pixels and demands equal results, equal interior background and equal threshold; the design model states the loops' interior bounds (Detector.tla) and is checked for C07/C09/C15."),
 "C09": dict(fam="detect", ref="4.4", note='Trusted: TLC; in-package driver reading tempThresh/background after each Detect (build tag verif); harness-written telemetry; float deviations named in Detector.tla (+-1 on the mean, weight ties).', text="TLC checks on the design model that no FFC-affected frame nor the frame after one reports motion for every FFC/reset placement; on the real detector the same rule is judged on streams with FFC periods of every length/parity, and paired histories that are identical from the first affected frame of a period (or from a reset, fixed threshold) but arbitrary before must give identical results (targeted across-the-period pairs + random)."),
 "C15": dict(fam="detect", ref="4.4", note='Trusted: TLC; in-package driver reading tempThresh/background after each Detect (build tag verif); harness-written telemetry; float deviations named in Detector.tla (+-1 on the mean, weight ties).', text="TLC checks on the design model (dynamic threshold, min/max unset or set, mean below/inside/above, preview 0/1, FFC, resets) the background envelope, border replication, re-seed and threshold = clamped mean; the real detector's background and threshold after every frame are judged by the same rules in TLC (+-1 for the float mean) and validated against Detector.tla."),
 "C10": dict(fam="files", ref="4.6", note="Trusted: TLC; strace/ptrace for kill placement (falls back to random-instant kills); go-cptv reader as the definition of 'decodes'; POSIX rename/unlink atomicity; process kill only.", text="TLC checks FileRecorder.tla (file-system calls of start/write/stop/discard, crash in every state, clean-up with the kinds measured on the real deleteTempFiles, restart) for 'every *.cptv is complete' and 'only complete recordings after clean-up'; the real recorder's call sequence (strace) is validated as a behaviour of that model with the invariant evaluated after every call; the process is really SIGKILLed on entering each file-system call of the scenarios and at random instants, every *.cptv is fully decoded, the daemon's clean-up is run, and a concurrent observer decodes files the moment they appear; the findings are judged by TLC (FileTrace.tla)."),
 "C11": dict(fam="files", ref="4.6", note="Trusted: TLC as evaluator of expected = decoded (the specification of fidelity is the identity); go-cptv reader; the e2e harness (runMain in-process, fake system bus, lock-step pacing so that 1 ms file names cannot collide); detector verdicts in e2e are the scene toggles (fixed-threshold one-diff configuration).", text="Generated device/camera/location/motion descriptions, pixel generators (full 16-bit range, 0, 65535, alternating extremes) and telemetry extremes go through the real CPTVFileRecorder; TLC compares every decoded header field, frame, pixel and telemetry value with what was recorded (Fidelity.tla). End to end, the unmodified runMain() gets a generated config.toml and a scripted socket byte stream; SystemTrace.tla steps Processor.tla with constants from the GENERATED settings and TLC compares the predicted files (frame-id sequences, motion and continuous) with the files decoded from the output directory, plus headers incl. camera-model motion defaults and throttle on/off."),
 "C14": dict(fam="socket", ref="4.7", note="Trusted: TLC; gopkg.in/yaml.v1 as the camera daemon's encoder; e2e harness (runMain in-process on a real unix socket, lock-step pacing); frames do not begin with the marker except in the witness of known finding F-C14-1.", text="TLC checks FrameSocket.tla (header lines, blank line, frames and markers over a byte stream delivered in every segmentation and closed at every point) for in-order exactly-once delivery, exact header, no over-read and termination; generated camera descriptions are encoded with the daemon's encoder and read back by ReadHeaderInfo through arbitrary read segmentation and at every truncation point; end to end, runMain receives streams in seeded chunk sizes with markers, bad frames, reconnects and cut headers, and TLC compares the files predicted by SystemTrace.tla with those produced; marker constants of both daemons are compared."),
}
NOT_YET = {
}
PENDING = ["C05","C06","C07","C08","C09","C10","C11","C14","C15","C16","C18","C19","C20"]

def main():
    checks = []
    for pid, c in sorted(CHECKS.items()):
        checks.append(dict(
            property_id=pid,
            quick_cmd="./check %s --tier quick" % pid,
            thorough_cmd="./check %s --tier thorough" % pid,
            evidence_file="evidence/%s.json" % pid,
            replay_cmd_template="./check %s --replay {path}" % pid,
            engine="tlc-" + c["fam"],
            level_claimed=dict(category="model_checking", text=c["text"], design_ref="DESIGN.md section " + c["ref"]),
            level_note=c.get("note", PROC_NOTE),
            technique="TLA+ spec + TLC exhaustive check; TLC-generated scripts replayed on the real code; TLA+ monitors and trace validation in TLC",
        ))
    na = [dict(property_id=p, reason=NOT_YET.get(p, "check not built yet in this round (planned, see DESIGN.md section 4)"))
          for p in PENDING if p not in CHECKS]
    m = dict(
        version=1,
        setup_cmd="./setup.sh",
        hooks=dict(guard="verif", enable="go build -tags verif (drivers are compiled inside a scratch copy of /repo's working tree)",
                   baseline_off_cmd="cd /repo && go build ./... && go test -vet=off -count=1 ./...",
                   source_commits=[], add_only=True),
        engines=[dict(name="tlc-socket", path="tools/fam_socket.py", serves_properties=["C14"], kind_free_text="TLC around spec/FrameSocket.tla, SockTrace.tla, SystemTrace.tla; drivers harness/ext/hdrdrv and the e2e harness"),
                 dict(name="tlc-files", path="tools/fam_files.py", serves_properties=["C10", "C11"], kind_free_text="TLC around spec/FileRecorder.tla, FileTrace.tla, Fidelity.tla, SystemTrace.tla; in-package drivers harness/inpkg/cmd/thermal-recorder (scenario child under strace, record/decode, e2e runMain + fake bus)"),
                 dict(name="tlc-detect", path="tools/fam_detect.py", serves_properties=["C07", "C08", "C09", "C15"], kind_free_text="TLC around spec/Detector.tla, DetCheck.tla, DetMon.tla; in-package driver harness/inpkg/motion"),
                 dict(name="tlc-throttle", path="tools/fam_throttle.py", serves_properties=["C05", "C06"], kind_free_text="TLC around spec/Throttle.tla + ThrMon.tla; driver harness/ext/thrdrv (direct and real-processor modes)"),
                 dict(name="tlc-ring", path="tools/fam_ring.py", serves_properties=["C19"], kind_free_text="TLC around spec/FrameLoop.tla; driver harness/ext/ringdrv"),
                 dict(name="tlc-loglim", path="tools/fam_loglim.py", serves_properties=["C20"], kind_free_text="TLC around spec/LogLimiter.tla; in-package driver harness/inpkg/loglimiter"),
                 dict(name="tlc-proc", path="tools/fam_proc.py", serves_properties=[p for p in CHECKS if CHECKS[p]["fam"]=="proc"],
                      kind_free_text="TLC (exhaustive + graph dump + simulate + trace validation) around spec/Processor.tla, ProcMon.tla; Go driver harness/ext/procdrv")],
        checks=checks,
        not_applicable=na,
        notes="Exit codes: 0 held, 1 VIOLATION (only from traces of the real code), 2 infrastructure/model drift. known_findings.json lists known/fixed findings.",
    )
    json.dump(m, open(os.path.join(V, "MANIFEST.json"), "w"), indent=1)
    print("wrote MANIFEST.json with", len(checks), "checks")

if __name__ == "__main__":
    main()
