"""C11 — finished files decode to exactly what was recorded (Fidelity.tla); settings from config.toml shape the
files produced from a socket byte stream (e2e, SystemTrace.tla)."""
import json
import os
import subprocess

import vlib
from vlib import cfg as mkcfg

ASSUME = [
    "the specification of fidelity is the identity: TLC evaluates expected = decoded field by field / pixel by pixel; "
    "the codec's internals (go-cptv compression) are exercised, not modelled",
    "expected values are computed by the harness from the script (float32 for temperatures and location, ms for times); "
    "strings <= 255 bytes; motion configuration compared key by key after YAML parsing",
]
GENS = ["rand16", "zero", "max", "alt", "ramp", "small", "edges", "scene"]
STRS = ["", "a", "dev-1", "ünïcödé", "x" * 255, "with space", "flir", "lepton3.5", "boson", "1.2.3", "0"]


def gen_script(rng):
    w, h = rng.choice([(1, 1), (2, 2), (4, 3), (8, 6), (16, 12), (5, 7)])
    def fr(i):
        return dict(gen=rng.choice(GENS), seed=rng.randint(0, 10 ** 6), timeOn=rng.choice([0, 1, 999, 60000 + 111 * i, 2 ** 31 - 1]),
                    lastFFC=rng.choice([0, 1, 50000, 2 ** 31 - 1]), tempC=rng.choice([0.0, -273.15, 21.37, 45.015, 382.2]),
                    lastFFCTempC=rng.choice([0.0, 20.5, -40.0, 382.2]))
    recs = []
    for r in range(rng.randint(1, 3)):
        recs.append(dict(thresh=rng.choice([0, 1, 2950, 65535]), bg=dict(gen=rng.choice(GENS), seed=rng.randint(0, 999)),
                         frames=[fr(i) for i in range(rng.choice([1, 1, 2, 5, 12]))]))
    motion = dict(DynamicThreshold=rng.random() < 0.5, TempThreshMin=rng.choice([0, 2000]), TempThreshMax=rng.choice([0, 3500]),
                  TempThresh=rng.choice([0, 2900, 65535]), DeltaThresh=rng.choice([1, 50, 999]), CountThresh=rng.choice([1, 3, 999]),
                  FrameCompareGap=rng.choice([1, 45, 99]), UseOneDiffOnly=rng.random() < 0.5, TriggerFrames=rng.choice([0, 2, 9]),
                  WarmerOnly=rng.random() < 0.5, EdgePixels=rng.choice([0, 1, 5]), Verbose=False)
    return dict(W=w, H=h, Fps=rng.choice([1, 9, 60, 255]), device=rng.choice(STRS[1:]), deviceid=rng.choice([1, 3, 70000, 2 ** 31 - 1]),
                brand=rng.choice(STRS[1:]), model=rng.choice(STRS[1:]), serial=rng.choice([1, 12345, 2 ** 31 - 1]),
                firmware=rng.choice(STRS[1:]), preview=rng.choice([0, 1, 5, 255]),
                lat=rng.choice([-43.5, 0.0, 89.99999, -0.000001]), long=rng.choice([172.6, -179.999, 0.0]),
                alt=rng.choice([0.0, 1.5, 8848.0]), acc=rng.choice([0.0, 3.5]),
                loctime=rng.choice([0, 1600000000123, 1]), motion=motion, recordings=recs)


def run(ctx):
    tier, rng = ctx.tier, ctx.sub_rng("fam_files_c11.1")
    binp = ctx.go_test_build("./cmd/thermal-recorder", "tr.test")
    n = 60 if tier == "quick" else 1200
    scripts = [gen_script(rng) for _ in range(n)]
    # the same through the throttle (manual clock): cuts and mid-trigger restarts must keep each trigger's own
    # background and threshold
    for i in range(n // 3):
        sc = gen_script(rng)
        sc["W"], sc["H"] = rng.choice([(2, 2), (4, 3)])
        sc["Fps"] = rng.choice([1, 2, 3])
        th = dict(bucket=rng.choice([1, 2, 3]), minlen=rng.choice([1, 2]), k=rng.choice([5, 50, 400]), frame_ms=rng.choice([1, 100, 400]))
        sc["throttle"] = th
        recs = []
        for r in range(rng.randint(2, 5)):
            nfr = rng.choice([1, 3, th["bucket"] * sc["Fps"] + 2, 3 * th["bucket"] * sc["Fps"] + 5, 25])
            recs.append(dict(adv_ms=rng.choice([0, 50, th["k"] * th["minlen"] * sc["Fps"], 100000]), thresh=1000 + 7 * r + rng.randint(0, 5),
                             bg=dict(gen="scene", seed=rng.randint(0, 999)),
                             frames=[dict(gen=rng.choice(["scene", "small", "rand16"]), seed=rng.randint(0, 10 ** 6), timeOn=60000 + 111 * k,
                                          lastFFC=0, tempC=20.5, lastFFCTempC=20.0) for k in range(nfr)]))
        sc["recordings"] = recs
        if i < 3:
            # always present: a tiny bucket that refills slowly while long triggers follow each other without a pause - every
            # trigger after the first starts throttled and its file is (re)started in the middle of the trigger
            sc["Fps"] = 2
            sc["throttle"] = th = dict(bucket=1, minlen=1, k=400, frame_ms=100)
            sc["recordings"] = [dict(adv_ms=[0, 0, 50][r % 3], thresh=1000 + 7 * r + i, bg=dict(gen="scene", seed=100 * i + r),
                                     frames=[dict(gen="scene", seed=1000 * i + 50 * r + k, timeOn=60000 + 111 * k, lastFFC=0, tempC=20.5,
                                                  lastFFCTempC=20.0) for k in range(25)]) for r in range(3)]
        scripts.append(sc)
    inp, outp = ctx.path("run", "rec.json"), ctx.path("run", "rec.ndjson")
    json.dump(dict(scripts=scripts), open(inp, "w"))
    r = subprocess.run([binp, "-test.run", "^TestVerifRecord$"], env=dict(os.environ, VERIF_SCRIPT=inp, VERIF_OUT=outp),
                       capture_output=True, text=True, timeout=1800)
    if r.returncode != 0 or not os.path.exists(outp):
        raise vlib.Infra("record driver failed: " + (r.stdout + r.stderr)[-3000:])
    events = vlib.read_ndjson(outp)
    # a concurrent reader that decodes every *.cptv as soon as its name appears in the directory
    obs_out = ctx.path("run", "observer.ndjson")
    r = subprocess.run([binp, "-test.run", "^TestVerifObserver$"], env=dict(os.environ, VERIF_OUT=obs_out, VERIF_N=str(25 if tier == "quick" else 300)),
                       capture_output=True, text=True, timeout=900)
    if r.returncode != 0 or not os.path.exists(obs_out):
        raise vlib.Infra("observer run failed: " + (r.stdout + r.stderr)[-2000:])
    nobs = 0
    with open(outp, "a") as f:
        for e in vlib.read_ndjson(obs_out):
            if e["ev"] == "observe":
                nobs += 1
                f.write(json.dumps(e) + "\n")
    events = vlib.read_ndjson(outp)
    import fam_e2e
    e2e_events, e2e_stats, e2e_design = fam_e2e.c11_events(ctx, binp)
    nev = len(events)
    t = ctx.tlc("fidelity", "Fidelity", mkcfg(init="TInit", next_="TNext", post="Consumed"), workers=1,
                files=[(outp, "trace.ndjson")], timeout=3000, heap="6g")
    if t.get("distinct", 0) != nev + 1:
        raise vlib.Infra("Fidelity.tla did not consume the trace\n" + vlib.tail_err(t["out"]))
    violations, seen = [], set()
    for (line, tags) in vlib.parse_viol(t["out"]):
        for tg in tags:
            if tg in seen:
                continue
            seen.add(tg)
            e = events[line - 1]
            rp = vlib.save_replay(ctx, tg.replace(":", "_"), dict(family="files", property="C11", clause=tg,
                                  script=scripts[e.get("script", 0)], event={k: e[k] for k in e if k not in ("expected", "decoded")}))
            violations.append(dict(key=tg, replay=rp, what="script %s" % e.get("script")))
    violations += fam_e2e.judge_c11(ctx, e2e_events, binp)
    # test recordings requested on top of motion recordings (three recorders wired in handleConn, one directory): every
    # published file still decodes to exactly the frames it was given, with and without the throttle in the chain
    oruns = fam_e2e.c17_runs(ctx, binp) + [r for r in fam_e2e.c17_runs(ctx, binp, throttled=True)]
    have = {v["key"] for v in violations}
    for v in fam_e2e.judge_c11(ctx, oruns, binp):
        if v["key"] not in have:
            have.add(v["key"])
            violations.append(v)
    # ---- beyond the listed properties: how a rewritten config.toml takes effect (ConfigWatch.tla); reported as a NOTE
    cw = dict(design=None, rewrites=0, accepted=None, note=None)
    try:
        d = ctx.tlc("cfgwatch_design", "ConfigWatch",
                    mkcfg(spec="Spec", constants=dict(RVals={1, 2, 3}, MVals={1, 2}, MaxWrites=3 if tier == "quick" else 4),
                          invariants=["NeverStale"], properties=["ExitOnlyWhenRelevant", "TakesEffect"], deadlock=False), timeout=900, heap="4g")
        cw["design"] = dict(ok=d["ok"], distinct=d.get("distinct"))
        ctrace, cnote = fam_e2e.cfgwatch_runs(ctx, binp)
        cw["note"] = cnote
        if ctrace is not None:
            tp = ctx.path("run", "cfgwatch.ndjson")
            vlib.write_ndjson(tp, ctrace)
            r = ctx.tlc("cfgwatch_trace", "ConfigWatchTrace",
                        mkcfg(init="TInit", next_="TNext", post="Accepted", constants=dict(RVals={0, 1, 2, 3}, MVals={0, 1, 2}, MaxWrites=100), deadlock=False),
                        workers=1, files=[(tp, "trace.ndjson")], timeout=600, heap="2g", expect_ok=False)
            cw["rewrites"] = sum(1 for e in ctrace if e["ev"] == "cw-write")
            cw["accepted"] = r.get("distinct", 0) == len(ctrace) + 1
            if not cw["accepted"] or not d["ok"]:
                print("NOTE: config-reload behaviour differs from ConfigWatch.tla (not one of the listed properties): trace %s, design %s"
                      % ("accepted" if cw["accepted"] else "rejected after %d events" % (r.get("distinct", 1) - 1), d["ok"]))
                ctx.notes.append("ConfigWatch: trace accepted=%s design ok=%s" % (cw["accepted"], d["ok"]))
    except (vlib.Infra, fam_e2e.DaemonCrash, fam_e2e.DaemonExit) as e:
        cw["note"] = "config-watch runs skipped: %s" % str(e)[:200]
    files = [e for e in events if e["ev"] in ("file", "tfile")]
    frames = sum(len(e["decoded"]["frames"]) for e in files)
    coverage = dict(states=max(1, e2e_design.get("distinct", 0)), transitions=max(1, e2e_design.get("generated", 0)),
                    traces_validated_against_impl=len(files) + e2e_stats.get("runs", 0),
                    samples=[dict(script={k: scripts[0][k] for k in scripts[0] if k != "recordings"},
                                  decoded_header={k: files[0]["decoded"][k] for k in files[0]["decoded"] if k != "frames"})] if files else [{}],
                    files_decoded=len(files), files_through_throttle=sum(1 for e in events if e["ev"] == "tfile"),
                    frames_compared=frames, files_decoded_by_concurrent_reader=nobs, e2e=e2e_stats, config_reload_beyond_listed_properties=cw,
                    evaluations=len(scripts) + e2e_stats.get("runs", 0),
                    distinct_nontrivial=len({json.dumps(s, sort_keys=True) for s in scripts}) + e2e_stats.get("runs", 0),
                    rule="generated device/camera/location/motion descriptions x pixel generators (full range, 0, 65535, "
                         "alternating extremes, ramps, small deltas) x telemetry extremes through the real recorder; plus "
                         "end-to-end runs of runMain with generated config.toml and socket byte streams")
    return vlib.finish(ctx, violations, coverage, ASSUME)
