"""Family "loglim": C20 — loglimiter/loglimiter.go, spec LogLimiter.tla."""
import json
import os
import subprocess

import vlib
from vlib import cfg as mkcfg

ASSUME = [
    "the limiter's clock is injected through its unexported nowFunc (in-package driver, build tag verif); "
    "log output is captured from the standard logger with flags 0",
    "arrival times are non-decreasing; generated messages do not end in a newline (log.Print only appends one "
    "when it is missing)",
]
POOL = ["Recording not started: motion detected but outside of recording window", "a", "b", "", "a ", "A",
        "100% done", "x\ty", "Recording not started: disk", "é→✓"]


def run_driver(ctx, scripts, name="trace"):
    binp = ctx.go_test_build("./loglimiter", "loglimiter.test")
    inp = ctx.path("run", name + ".json")
    json.dump(dict(scripts=scripts), open(inp, "w"))
    outp = ctx.path("run", name + ".ndjson")
    env = dict(os.environ, VERIF_SCRIPT=inp, VERIF_OUT=outp)
    r = subprocess.run([binp, "-test.run", "^TestVerifDriver$"], env=env, capture_output=True, text=True, timeout=600)
    if r.returncode != 0 or not os.path.exists(outp):
        raise vlib.Infra("loglimiter driver failed: " + (r.stdout + r.stderr)[-2000:])
    # the interval the recorder uses
    binm = ctx.go_test_build("./motion", "motion.test")
    outc = ctx.path("run", name + ".consts.ndjson")
    r = subprocess.run([binm, "-test.run", "^TestVerifConsts$"], env=dict(os.environ, VERIF_OUT=outc),
                       capture_output=True, text=True, timeout=600)
    if r.returncode != 0:
        raise vlib.Infra("motion consts driver failed: " + (r.stdout + r.stderr)[-2000:])
    with open(outp, "a") as f:
        for e in vlib.read_ndjson(outc):
            if e["ev"] == "const":
                f.write(json.dumps(e) + "\n")
    return outp


def judge(ctx, trace, name="mon"):
    nev = sum(1 for _ in open(trace))
    r = ctx.tlc(name, "LogTrace", mkcfg(init="TInit", next_="TNext", post="Consumed"), workers=1,
                files=[(trace, "trace.ndjson")], timeout=900, heap="4g")
    if r.get("distinct", 0) != nev + 1:
        raise vlib.Infra("LogTrace did not consume the trace\n" + vlib.tail_err(r["out"]))
    return vlib.parse_viol(r["out"]), nev


def run(ctx):
    tier, rng = ctx.tier, ctx.sub_rng("fam_loglim.1")
    I = 3 if tier == "quick" else 4
    consts = dict(Interval=I, Msgs={'"a"', '"b"', '""'}, MaxTime=4 * I + (0 if tier == "quick" else 3),
                  Steps=set(range(0, I + 2)))
    d = ctx.tlc("design", "LogLimiter",
                mkcfg(constants=consts, invariants=["Unmodified", "AtMostOnePerInterval", "StateAgrees"],
                      properties=["IffStep"]), timeout=900, heap="4g")
    if not d["ok"]:
        raise vlib.Infra("LogLimiter.tla design check failed:\n" + vlib.tail_err(d["out"]))
    r = ctx.tlc("replay", "LogReplay", mkcfg(init="RInit", next_="RNext", constants=consts),
                args=["-dump", "dot,actionlabels", "graph"], timeout=600, heap="4g", expect_ok=True)
    inits, nodes, edges = vlib.parse_dot(os.path.join(r["dir"], "graph.dot"))
    paths, ne = vlib.transition_cover(inits, nodes, edges, maxlen=40, rng=ctx.sub_rng("loglim.cover"))
    scripts = []
    crng = ctx.sub_rng("loglim.coverunits")
    for p in paths:
        unit = crng.choice([1, 1000, 20000])     # model time unit in ms; Interval = I units
        t, steps = 0, []
        for x in p:
            e = nodes.get(x)
            if not e:
                continue
            t += e["dt"] * unit
            steps.append(dict(msg=e["msg"], now=t, printf=crng.random() < 0.3))
        scripts.append(dict(interval=I * unit, steps=steps))
    ncover = len(scripts)
    nrand = 200 if tier == "quick" else 3000
    for i in range(nrand):
        iv = rng.choice([60000, 60000, 1, 2, 1000, 59999, 100000])
        pool = rng.sample(POOL, rng.randint(1, 4))
        t, steps = rng.choice([0, 0, 5, iv]), []
        for k in range(rng.randint(5, 80)):
            t += rng.choice([0, 0, 1, iv - 1, iv, iv + 1, iv // 2, 2 * iv, rng.randint(0, 2 * iv)])
            steps.append(dict(msg=rng.choice(pool), now=t, printf=rng.random() < 0.3))
        scripts.append(dict(interval=iv, steps=steps))
    trace = run_driver(ctx, scripts)
    # the limiter as the motion processor uses it: every line the real processor prints during fault-heavy runs
    # (refused starts, failing sinks, resets, bad frames, test recordings) is an output of its limiter
    import fam_proc
    pscripts = [fam_proc.gen_random_script(rng, "C12") for _ in range(150 if tier == "quick" else 2000)]
    # stretches in which several conditions that are logged hold on every frame at once (continuous recorder failing to
    # start, motion outside the window / without disk space / with file creation failing): their messages alternate
    for i in range(30 if tier == "quick" else 300):
        fps = rng.choice([1, 2, 3])
        cfgp = dict(fps=fps, preview=rng.choice([0, 1]), trig=rng.choice([1, 2]), min=1, max=rng.choice([1, 2]), const=True,
                    win=[600, 840], shadow=False, resx=4, resy=3)
        steps = []
        for seg in range(rng.randint(2, 5)):
            cfail = rng.random() < 0.7
            other = rng.choice(["win", "disk", "mstart", "none", "cstop"])
            for k in range(rng.randint(3, 12)):
                st = dict(a="frame", motion=(other != "none" and rng.random() < 0.9), win=(other != "win"), disk=(other != "disk"),
                          mStart=(other != "mstart"), cStart=not cfail, cStop=(other != "cstop"))
                steps.append(st)
        pscripts.append(dict(cfg=cfgp, steps=steps, origin="logmix"))
    # one storage fault that persists over many frames of a recording in progress (writes of the motion / continuous
    # sink failing frame after frame): one condition recurring on every frame
    for i in range(20 if tier == "quick" else 200):
        fps = rng.choice([1, 2, 3])
        cfgp = dict(fps=fps, preview=rng.choice([0, 1]), trig=rng.choice([1, 2]), min=rng.choice([3, 5]), max=rng.choice([8, 10]),
                    const=rng.random() < 0.5, win=[], shadow=False, resx=4, resy=3)
        steps = [dict(a="frame", motion=False) for _ in range(rng.randint(1, 4))]
        steps += [dict(a="frame", motion=True) for _ in range(rng.randint(2, 4))]
        which = rng.choice(["mW", "mW", "cW"]) if cfgp["const"] else "mW"
        for k in range(rng.randint(4, 12)):
            st = dict(a="frame", motion=rng.random() < 0.5)
            st[which] = False
            steps.append(st)
        steps += [dict(a="frame", motion=False) for _ in range(rng.randint(0, 3))]
        pscripts.append(dict(cfg=cfgp, steps=steps, origin="persistent-fault"))
    ptrace = fam_proc.drive(ctx, pscripts, "c20proc", env=dict(VERIF_LOGS="1"))
    # the same scripts with the processor's limiter replaced by one that suppresses nothing: the attempted messages
    atrace = fam_proc.drive(ctx, [dict(s, cfg=dict(s["cfg"], nolimit=True)) for s in pscripts], "c20attempts", env=dict(VERIF_LOGS="1"))
    def lines_by_script(tr):
        out, cur = {}, None
        for e in vlib.read_ndjson(tr):
            if e["ev"] == "cfg":
                cur = e["script"]; out[cur] = []
            out[cur] += [ln["out"] for ln in (e.get("logs") or [])]
        return out
    obs, att = lines_by_script(ptrace), lines_by_script(atrace)
    plines = 0
    with open(trace, "a") as f:
        cur = None
        for e in vlib.read_ndjson(ptrace):
            if e["ev"] == "cfg":
                cur = e["script"]
                f.write(json.dumps(dict(ev="pnew", script=cur)) + "\n")
            for ln in e.get("logs") or []:
                plines += 1
                f.write(json.dumps(dict(ev="pout", script=cur, out=ln["out"], now=ln["now"])) + "\n")
    with open(trace, "a") as f:
        for si in sorted(obs):
            f.write(json.dumps(dict(ev="pcmp", script=si, attempts=att.get(si, []), out=obs[si])) + "\n")
    # one condition recurring: consecutive frames that are the same script step and had the same storage calls with the
    # same results - frame writes only, a failing one among them; `a`/`b` = what the processor tried to log on each
    nrep = 0
    with open(trace, "a") as f:
        cur, prev, k = None, None, 0
        for e in vlib.read_ndjson(atrace):
            if e["ev"] == "cfg":
                cur, prev, k = e["script"], None, 0
                continue
            sig = None
            if e["ev"] == "frame" and k < len(pscripts[cur]["steps"]):
                calls = [(c["s"], c["op"], c["ok"]) for c in e.get("calls") or []]
                if any(not c[2] for c in calls) and all(c[1] == "w" for c in calls):   # recordings in progress, nothing starts or stops
                    sig = json.dumps([pscripts[cur]["steps"][k], calls, e.get("err")], sort_keys=True)
            msgs = [ln["out"] for ln in (e.get("logs") or [])]
            if sig is None and e["ev"] == "frame" and k < len(pscripts[cur]["steps"]):
                # a start refused on every frame of a run of motion (window closed / disk space missing): once the refusal
                # has been reported (prev messages non-empty), the next identical frame of the run must report it again
                st = pscripts[cur]["steps"][k]
                calls = [(c["s"], c["op"], c["ok"]) for c in e.get("calls") or []]
                if e.get("motion") and st.get("motion") and (st.get("win") is False or st.get("disk") is False) \
                        and all(c[1] == "w" and c[2] for c in calls):
                    sig = json.dumps(["refused", st, calls], sort_keys=True)
                    if not (prev is not None and prev[0] == sig and prev[1]):
                        # first frame of the pair (or nothing reported yet): remember, compare from the next one on
                        prev = (sig, msgs); k += 1
                        continue
            if sig is not None and prev is not None and prev[0] == sig:
                nrep += 1
                f.write(json.dumps(dict(ev="prep", script=cur, step=k, a=prev[1], b=msgs)) + "\n")
            prev = (sig, msgs) if sig is not None else None
            k += 1
    events = vlib.read_ndjson(trace)
    viol, nev = judge(ctx, trace)
    owner, cur, starts = [], -1, {}
    for i, e in enumerate(events):
        if e["ev"] == "new":
            cur = e["script"]; starts[cur] = i
        owner.append(cur)
    violations, seen = [], set()
    for (line, tags) in viol:
        for t in tags:
            if t in seen:
                continue
            seen.add(t)
            si = owner[line - 1]
            ob = events[line - 1]
            if ob["ev"] in ("pout", "pcmp", "prep"):
                rp = vlib.save_replay(ctx, t.replace(":", "_"), dict(family="loglim", property="C20", clause=t,
                                      proc_script=pscripts[ob["script"]], observed=ob))
                violations.append(dict(key=t, replay=rp, what=json.dumps(ob)[:200]))
                continue
            rp = vlib.save_replay(ctx, t.replace(":", "_"), dict(family="loglim", property="C20", clause=t,
                                  script=scripts[si] if si >= 0 else None, observed=events[line - 1]))
            violations.append(dict(key=t, replay=rp, what=json.dumps(events[line - 1])[:200]))
    prints = [e for e in events if e["ev"] == "print"]
    supp = sum(1 for e in prints if e["out"] == "")
    distinct = len({json.dumps(s) for s in scripts if len({st["msg"] for st in s["steps"]}) >= 1 and len(s["steps"]) >= 2})
    coverage = dict(states=d.get("distinct", 0), transitions=d.get("generated", 0),
                    traces_validated_against_impl=len(scripts), samples=[dict(script=scripts[0], trace=events[:5])],
                    exhaustive=True, design=dict(Interval=I, MaxTime=consts["MaxTime"]), cover_edges=ne,
                    cover_scripts=ncover, random_scripts=nrand, events_judged=nev, calls=len(prints), suppressed=supp,
                    processor_scripts=len(pscripts), processor_lines_judged=plines, recurring_condition_frame_pairs=nrep,
                    processor_attempted_messages=sum(len(v) for v in att.values()),
                    recorder_interval_checked=any(e["ev"] == "const" for e in events),
                    evaluations=len(scripts), distinct_nontrivial=distinct,
                    rule="transition cover of LogReplay + seeded histories with arrivals at interval-1/interval/interval+1; "
                         "non-trivial = at least two calls; distinct by (interval, steps)")
    return vlib.finish(ctx, violations, coverage, ASSUME)


def replay(ctx, path):
    rp = json.load(open(path))
    if rp.get("proc_script"):
        import fam_proc
        sc = rp["proc_script"]
        ptrace = fam_proc.drive(ctx, [sc], "replayproc", env=dict(VERIF_LOGS="1"))
        atrace = fam_proc.drive(ctx, [dict(sc, cfg=dict(sc["cfg"], nolimit=True))], "replayatt", env=dict(VERIF_LOGS="1"))
        trace = ctx.path("run", "replayproc.log.ndjson")
        outl = [ln for e in vlib.read_ndjson(ptrace) for ln in (e.get("logs") or [])]
        attl = [ln["out"] for e in vlib.read_ndjson(atrace) for ln in (e.get("logs") or [])]
        with open(trace, "w") as f:
            f.write(json.dumps(dict(ev="pnew", script=0)) + "\n")
            for ln in outl:
                f.write(json.dumps(dict(ev="pout", script=0, out=ln["out"], now=ln["now"])) + "\n")
            f.write(json.dumps(dict(ev="pcmp", script=0, attempts=attl, out=[ln["out"] for ln in outl])) + "\n")
        viol, _ = judge(ctx, trace, "replaymon")
        tags = sorted({t for (_, ts) in viol for t in ts})
        if tags:
            print("VIOLATION property=C20 replay=%s" % path); print("  clauses:", ", ".join(tags)); return 1
        print("replay: no clause fired"); return 0
    if not rp.get("script"):
        print("replay: constant check, re-run the check"); return 0
    trace = run_driver(ctx, [rp["script"]], "replay")
    viol, _ = judge(ctx, trace, "replaymon")
    tags = sorted({t for (_, ts) in viol for t in ts})
    if tags:
        print("VIOLATION property=C20 replay=%s" % path); print("  clauses:", ", ".join(tags)); return 1
    print("replay: no clause fired"); return 0
