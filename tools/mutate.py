#!/usr/bin/env python3
"""Self-validation: apply a catalogued mutant to /repo, run the named checks, restore /repo.
usage: mutate.py <mutant id|all> [--props C01,C02] [--tests]"""
import argparse, json, os, subprocess, sys
V = os.path.dirname(os.path.dirname(os.path.abspath(__file__)))
REPO = os.environ.get("VERIF_REPO", "/repo")
# evidence/replays of mutant runs never land in /verif/evidence
OUT = os.environ.setdefault("VERIF_SELFVAL_OUT", "/tmp/verif-selfval-out")

def sh(cmd, **kw):
    return subprocess.run(cmd, shell=True, capture_output=True, text=True, **kw)

def main():
    ap = argparse.ArgumentParser()
    ap.add_argument("mid")
    ap.add_argument("--props")
    ap.add_argument("--tests", action="store_true")
    ap.add_argument("--tier", default="quick")
    a = ap.parse_args()
    cat = json.load(open(os.path.join(V, "mutants", "catalogue.json")))
    todo = [m for m in cat if a.mid in ("all", m["id"]) or m["id"].startswith(a.mid)]
    assert sh("git -C %s status --porcelain --untracked-files=no" % REPO).stdout.strip() == "", "repo dirty"
    results = []
    for m in todo:
        try:
            stale = [ed for ed in m["edits"] if open(os.path.join(REPO, ed["file"])).read().count(ed["old"]) != 1]
            if stale:
                print(m["id"], "STALE: pattern not found exactly once in", stale[0]["file"], flush=True)
                results.append((m["id"], "-", 99))
                continue
            for ed in m["edits"]:
                p = os.path.join(REPO, ed["file"])
                s = open(p).read()
                open(p, "w").write(s.replace(ed["old"], ed["new"]))
            b = sh("cd %s && go build ./... 2>&1" % REPO)
            if b.returncode != 0:
                print(m["id"], "DOES NOT COMPILE", b.stdout[-500:]); continue
            if a.tests:
                t = sh("cd %s && go test -vet=off -count=1 ./... 2>&1 | tail -15" % REPO)
                print(m["id"], "tests:", "FAIL" in t.stdout and "TESTS FAIL" or "tests pass")
                if "FAIL" in t.stdout: print(t.stdout)
            props = a.props.split(",") if a.props else m["props"]
            for pr in props:
                r = sh("cd %s && ./check %s --tier %s 2>&1" % (V, pr, a.tier))
                v = [l for l in r.stdout.splitlines() if l.startswith(("VIOLATION", "  clause", "INFRA", "DRIFT", "KNOWN"))]
                print("%-28s %s rc=%d %s" % (m["id"], pr, r.returncode, " | ".join(v[:4])), flush=True)
                results.append((m["id"], pr, r.returncode))
        finally:
            sh("git -C %s checkout -- ." % REPO)
    missed = [r for r in results if r[2] != 1]
    print("missed:", missed)

if __name__ == "__main__":
    main()
